#!/bin/bash
# usage: tools/run_all.sh [quick|thorough] [ids...] — runs the registered checks in sequence, validates evidence
tier=${1:-quick}; shift
ids=${@:-C01 C02 C03 C04 C05 C06 C07 C08 C09 C10 C12 C13 C14 C15 C16 C17 C18}
cd "$(dirname "$0")/.."
rc=0
for id in $ids; do
  ./check $id --tier $tier 2>&1 | grep -E "^(VIOLATION|KNOWN-FINDING|INFRA|C[0-9]+ tier)" | cut -c1-220
  [ ${PIPESTATUS[0]} -ne 0 ] && rc=1
  [ -n "${VERIF_REPO:-}" ] && [ "$VERIF_REPO" != "/repo" ] && continue
  python3-vt -c "
import json,jsonschema,sys
jsonschema.validate(json.load(open('evidence/$id.json')),json.load(open('/root/.vp/EVIDENCE.schema.json')))" || { echo "EVIDENCE INVALID $id"; rc=1; }
done
exit $rc
