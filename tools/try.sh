#!/bin/bash
# usage: tools/try.sh <file.go>   — file is a go-co source of package p defining func G() Iter[int]
# compiles it with the real compiler (current /repo), prints the optimised output and the drained values.
set -u
export GOFLAGS=-mod=mod GOPROXY=off GOSUMDB=off GOTOOLCHAIN=local
D=$(mktemp -d /tmp/try-XXXX); trap "rm -rf $D" EXIT
mkdir -p $D/src/p
cat > $D/go.mod <<EOM
module scratch

go 1.23

require (
	github.com/goghcrow/go-co v0.0.0
	verif/sim v0.0.0
)

replace github.com/goghcrow/go-co => ${VERIF_REPO:-/repo}

replace verif/sim => /verif/sim
EOM
cp /verif/sim/go.sum $D/
cp "$1" $D/src/p/x.go
MODFLAG=""
if [ -n "${VERIF_REPO:-}" ] && [ "$VERIF_REPO" != "/repo" ]; then
  sed "s|=> /repo\$|=> $VERIF_REPO|" /verif/sim/go.mod > /verif/sim/go.alt.mod; cp /verif/sim/go.sum /verif/sim/go.alt.sum
  MODFLAG="-modfile=go.alt.mod"
fi
( cd /verif/sim && go build $MODFLAG -tags verif -o $D/codrv ./cmd/codrv ) || exit 2
( cd $D && CODRV_STACK=${STACK:-} $D/codrv stages src opt ) || { echo "COMPILE FAILED"; exit 1; }
[ -n "${SHOWTMP:-}" ] && cat $D/opt_tmp/p/x.go
cat $D/opt/p/x.go
cat > $D/main.go <<EOM
package main

import (
	"fmt"
	p "scratch/opt/p"
)

func main() {
	it := p.G()
	for i := 0; i < 40 && it.MoveNext(); i++ {
		fmt.Print(it.Current(), " ")
	}
	fmt.Println()
}
EOM
( cd $D && go run . )
