#!/usr/bin/env python3
"""Regenerates MANIFEST.json from the table below (single source of truth) and validates it."""
import json, subprocess, sys, os
ROOT = os.path.dirname(os.path.dirname(os.path.abspath(__file__)))
ENV = "GOFLAGS=-mod=mod GOPROXY=off GOSUMDB=off GOTOOLCHAIN=local"
BASE_PKGS = "./example ./example/lexer ./example/linq ./example/sched1 ./example/sched2 ./example/tree ./rewriter ./seq"

# id -> (category, technique, text, note, design_ref)
SIM = "deterministic simulation"
TB_C = "Trusted: sim/refco (coroutine hand-off, ~170 lines), the reference renderer (same IR walk, 6 token-level differences), Go toolchain. The workload generator samples programs; it is input generation, not simulation (DESIGN.md 3)."
CHECKS = {
 "C01": ("exploration", SIM + ": seeded generator programs compiled by the real compiler, drained by a simulated consumer; value/termination projection of the event history vs a reference coroutine running the same source",
         "Seeded search over programs x argument vectors; fault-free full-drain projection of the C02 simulation (weakest fit of the family, stated in DESIGN.md 4 C01). Acceptance-gate failures of in-subset programs are violations. Sampling, not proof.", TB_C, "DESIGN.md 4 C01"),
 "C02": ("exploration", SIM + ": simulated consumer histories (new/advance/Current/quiesce, calls after exhaustion) over compiled programs; full event-history equality with a reference coroutine",
         "Seeded search over programs x consumer histories; every run records where each generator-side effect falls relative to the consumer's calls and must equal the reference event for event (every truncation point is a prefix).", TB_C, "DESIGN.md 4 C02"),
 "C03": ("exploration", SIM + ": scope-profile programs (shadowing, closures across yields) under simulated consumer histories; history equality with a reference coroutine",
         "As C02 on a workload where every effect and yield reads variables in scope; decided on full histories. No schedule dimension of its own (stated).", TB_C, "DESIGN.md 4 C03"),
 "C04": ("exploration", SIM + ": range-profile programs whose loop bodies mutate the ranged collection between consumer steps; history equality with Go's own range run as a coroutine",
         "Loop and mutator are two actors on shared state inside the generated program; the reference executes Go's range. Multi-entry maps only with order-insensitive bodies.", TB_C, "DESIGN.md 4 C04"),
 "C05": ("exploration", SIM + ": delegation-profile programs (half-consumed, shared, recursive delegates) under simulated consumer histories incl. truncation; history equality with a reference coroutine",
         "Seeded search over generator call graphs x consumer histories; delegate steps per consumer step are read off the two-sided history.", TB_C, "DESIGN.md 4 C05"),
 "C06": ("exploration", SIM + ": consumer functions (range/pull loops, early exits) over compiled generators; two-sided event history (pull counts vs deliveries) equal to the reference",
         "Seeded search over consumer functions and iterator-typed declarations; over-pulling shows as an extra generator-side effect; incomplete type replacement shows at the acceptance gate.", TB_C, "DESIGN.md 4 C06"),
 "C07": ("exploration", SIM + " with fault injection: the optimised and the unoptimised stage of one compiler run played on identical schedules, fault-free and with injected panics; self-relative history equality",
         "Self-relative oracle (unopt vs opt), so translation defects filed under other properties cancel out; the hook's output is cross-checked byte for byte against production Compile on every batch.", TB_C + " Hook: rewriter.CompileStages (tag verif).", "DESIGN.md 4 C07, 6"),
 "C08": ("exploration", SIM + ": seeded combinator terms played by a simulated consumer on the real seq runtime vs a reference interpreter on a goroutine coroutine; history equality; Combine laws as metamorphic runs",
         "Seeded search over term descriptions and consumer histories (MoveNext/Current/Send/Result/quiesce, calls after exhaustion). Sampling, not exhaustive enumeration.", "Trusted: sim/refco, sim/layerr evalRef (structured-loop interpreter), Go runtime.", "DESIGN.md 4 C08"),
 "C09": ("exploration", SIM + ": seeded operation histories (MoveNext/Current/Send/Result) on the real generator vs a sequential reference model; history equality",
         "Seeded search over operation histories biased to the protocol boundaries on a family of generators; Result compared only once the model is done.", "Trusted: sim/refco as the executable model of the documented protocol.", "DESIGN.md 4 C09"),
 "C10": ("exploration", SIM + ": iterator steps interleaved with simulated mutator/producer steps (set, delete, create, append, reslice, send, close) vs Go's native range run as a coroutine; spec-derived invariant for multi-entry maps; bounded-exhaustive strings plus seeded inputs; nil-channel blocking observed as a parked goroutine",
         "Iterator and mutator/producer are two simulated actors whose step order the simulator decides; maps by a spec-derived invariant self-checked against native range. The string/integer parts have no second actor (input enumeration, stated).", "Trusted: Go's range statement as specification.", "DESIGN.md 4 C10"),
 "C12": ("exploration", SIM + " with syntactic fault injection into the workload: one unsupported construct spliced into a supported program; oracle fail-stop (diagnostic) or history equality with the reference; negative controls must be accepted",
         "Fault space is syntactic (said plainly in DESIGN.md); each program is its own package so rejections do not mask each other.", TB_C, "DESIGN.md 4 C12"),
 "C13": ("exploration", SIM + ": bystander op histories (create closure / reassign callee or receiver / call) encoded in plain functions; history equality between source-built and generated package; side-effect imports compared structurally at the acceptance gate",
         "Differential execution of co-located non-generator code with the closure-timing shapes file-wide passes endanger.", TB_C, "DESIGN.md 4 C13"),
 "C14": ("exploration", SIM + ": seeded thread scheduler pre-empting consumer threads at op boundaries and effect points (runtime terms and compiled programs); per-iterator projection vs solo run; consumer-interleaved sub-iterators of one generator vs the reference; plus a race-detector supplement on real goroutines (runtime monitoring, flagged)",
         "Seeded search over interleavings of k iterators on m simulated threads with pre-emption inside steps; self-relative oracle plus equality with the reference under the same choices. A supplement runs the same shared-value scenarios on truly parallel goroutines under the race detector (a race report or a per-iterator deviation is a violation too); that part is runtime monitoring, not seed-replayable, and flagged as such in the evidence.", "Trusted: sim/sched (baton passing, one runnable goroutine), sim/refco.", "DESIGN.md 4 C14"),
 "C15": ("fault_enumeration", SIM + " of tool-run histories over a directory tree with constructed crash-restart states (every file-write point of both stages), stale and conflicting directories; byte equality with a clean run",
         "Every crash point of every sampled layout is materialised (thorough; seeded subset in quick) and followed by a normal run; plus placement/repetition configurations.", "Trusted: crash-state construction (files in write order + torn prefix); the real file system.", "DESIGN.md 4 C15, 2.6"),
 "C16": ("fault_enumeration", SIM + " of go:generate runs of the real cogen binary over generated package layouts with stale temporary/output state; directory snapshots, build/test, idempotence",
         "Tool-run history per layout: snapshot, cogen, snapshot, build, type-check with tag, test, cogen, snapshot; fault variants: stale <dir>_tmp of a killed run, stale outputs of older sources.", "Trusted: directory snapshots (sha256), go build/test.", "DESIGN.md 4 C16"),
 "C17": ("exploration", SIM + " with an invariant monitor: stack depth sampled at effect points of simulated runs (runtime terms and compiled loops), n vs 10n ladder with the quiet stretch scaling with n; delegation depth linearity",
         "Invariant monitored during simulated runs with non-yielding stretches up to 10^5 (10^6 thorough) iterations; self-relative oracle. No interleaving involved (stated).", "Trusted: runtime.Callers as depth measure.", "DESIGN.md 4 C17"),
 "C18": ("fault_enumeration", SIM + " with fault injection: a panic armed at every effect index of every sampled run (failpoint in vrt.E), same interleaving replayed; runtime terms and compiled programs",
         "Fault enumeration over effect indices; self-relative oracle (prefix identical, panic surfaces from the executing call with the armed value, silence afterwards, other iterators unaffected) plus the reference coroutine's history.", "Trusted: vrt.E failpoint placement; sim/refco re-raising panics in the resumer.", "DESIGN.md 4 C18"),
}
NOT_YET = {}
NA = {
 "C11": "pure acceptance predicate over programs x configurations: no schedule, history, fault or interleaving in it, so deterministic simulation does not apply (DESIGN.md 4 C11 / 9); its shapes run through the acceptance gate of every compiled-program check and failures are reported under the property whose workload produced the program.",
}
props = [json.loads(l)["id"] for l in open(os.path.join(ROOT, "properties.jsonl"))]
checks = []
for pid in props:
    if pid in CHECKS:
        cat, tech, text, note, ref = CHECKS[pid]
        checks.append({
            "property_id": pid,
            "quick_cmd": f"./check {pid} --tier quick",
            "thorough_cmd": f"./check {pid} --tier thorough",
            "evidence_file": f"evidence/{pid}.json",
            "replay_cmd_template": f"./check {pid} --replay {{path}}",
            "engine": "vsim",
            "level_claimed": {"category": cat, "text": text, "design_ref": ref},
            "level_note": note,
            "technique": tech,
        })
na = []
for pid in props:
    if pid in CHECKS: continue
    reason = NA.get(pid) or NOT_YET.get(pid) or "check not built yet in this tree (work in progress, see DESIGN.md 8a construction order); not claimed until it exists"
    na.append({"property_id": pid, "reason": reason})
hooks_commits = [l.strip() for l in open(os.path.join(ROOT, "hooks_commits.txt"))] if os.path.exists(os.path.join(ROOT, "hooks_commits.txt")) else []
m = {
 "version": 1,
 "setup_cmd": f"cd /verif/sim && {ENV} go build -o ../bin/vsim ./cmd/vsim",
 "hooks": {
   "guard": "verif",
   "enable": "go build -tags verif (only the compile driver sim/cmd/codrv links the tagged file rewriter/verif_stages.go)",
   "baseline_off_cmd": f"cd /repo && {ENV} go test -vet=off -count=1 -timeout 300s {BASE_PKGS}",
   "source_commits": hooks_commits,
   "add_only": True,
 },
 "engines": [{"name": "vsim", "path": "sim/cmd/vsim", "serves_properties": sorted(CHECKS), "kind_free_text": "deterministic simulator: seeded consumer/scheduler/fault plans over the real runtime and real compiler output, reference coroutine model, history comparison, shrinking, replay"}],
 "checks": checks,
 "not_applicable": na,
 "notes": "All checks: exit 0 held / 1 VIOLATION / 2 infrastructure. VERIF_SEED selects the root seed. known_findings.txt lists recorded genuine defects.",
}
json.dump(m, open(os.path.join(ROOT, "MANIFEST.json"), "w"), indent=1)
subprocess.check_call(["python3-vt", "-c", "import json,jsonschema;jsonschema.validate(json.load(open('%s/MANIFEST.json')),json.load(open('/root/.vp/MANIFEST.schema.json')));print('MANIFEST valid')" % ROOT])
