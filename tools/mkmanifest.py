#!/usr/bin/env python3
"""Regenerates MANIFEST.json from the table below (single source of truth) and validates it."""
import json, subprocess, sys, os
ROOT = os.path.dirname(os.path.dirname(os.path.abspath(__file__)))
ENV = "GOFLAGS=-mod=mod GOPROXY=off GOSUMDB=off GOTOOLCHAIN=local"
BASE_PKGS = "./example ./example/lexer ./example/linq ./example/sched1 ./example/sched2 ./example/tree ./rewriter ./seq"

# id -> (category, technique, text, note, design_ref)
CHECKS = {
 "C08": ("exploration",
         "deterministic simulation: seeded combinator terms played by a simulated consumer on the real seq runtime vs a reference interpreter on a goroutine coroutine; history equality",
         "Seeded search over term descriptions and consumer histories (MoveNext/Current/Send/Result/quiesce, calls after exhaustion); every run records a full event history that must equal the reference interpreter's, plus Combine laws as metamorphic runs. Sampling, not proof.",
         "Trusted: sim/refco (coroutine hand-off), sim/layerr evalRef (structured-loop interpreter), Go runtime.",
         "DESIGN.md 4 C08"),
}
CHECKS.update({
 "C09": ("exploration",
         "deterministic simulation: seeded operation histories (MoveNext/Current/Send/Result) on the real generator vs a sequential reference model; history equality",
         "Seeded search over operation histories biased to the protocol boundaries (before start, at and after exhaustion) on a family of generators; each history must equal the sequential model's, event by event. Sampling of an unbounded history space.",
         "Trusted: sim/refco as the executable model of the documented protocol.", "DESIGN.md 4 C09"),
 "C10": ("exploration",
         "deterministic simulation: iterator steps interleaved with simulated mutator/producer steps vs Go's native range run as a coroutine; bounded-exhaustive strings plus seeded inputs",
         "Iterator and mutator/producer are two simulated actors whose step order the simulator decides; the oracle is Go's own range statement under the same script (maps: spec-derived invariant). The string and integer parts have no second actor and are input enumeration/sampling.",
         "Trusted: Go's range statement as specification; the map invariant checker (self-checked against native range on every case).", "DESIGN.md 4 C10"),
 "C14": ("exploration",
         "deterministic simulation: seeded thread scheduler pre-empting consumer threads at op boundaries and effect points; per-iterator projection vs solo run",
         "Seeded search over interleavings of k iterators on m simulated threads with pre-emption inside steps; oracle is self-relative (projection equals solo history) plus equality with the reference under the same choices. Runtime level only so far (compiled-program level and -race supplement pending).",
         "Trusted: sim/sched (baton passing, one runnable goroutine), sim/refco.", "DESIGN.md 4 C14"),
 "C17": ("exploration",
         "deterministic simulation with an invariant monitor: stack depth sampled at effect points of simulated runs, n vs 10n",
         "Invariant monitored during simulated runs of For/While/Loop with non-yielding stretches of 10^2..10^5 iterations; self-relative oracle (depth at 10n <= depth at n + slack). No interleaving is involved (stated in DESIGN.md). Runtime level only so far.",
         "Trusted: runtime.Callers as depth measure.", "DESIGN.md 4 C17"),
 "C18": ("fault_enumeration",
         "deterministic simulation with fault injection: a panic armed at every effect index of every sampled run (failpoint in vrt.E), same interleaving replayed",
         "Fault enumeration: every generator-side effect index of every sampled (terms, ops, interleaving) gets its own run with a panic armed there; oracle is self-relative (prefix identical, panic surfaces from the executing call with the armed value, silence afterwards, other iterators unaffected) plus the reference coroutine's history. Runtime level only so far.",
         "Trusted: vrt.E failpoint placement; sim/refco re-raising panics in the resumer.", "DESIGN.md 4 C18"),
})
NOT_YET = {}
NA = {
 "C11": "pure acceptance predicate over programs x configurations: no schedule, history, fault or interleaving in it, so deterministic simulation does not apply (DESIGN.md 4 C11 / 9); its shapes run through the acceptance gate of every compiled-program check and failures are reported under the property whose workload produced the program.",
}
props = [json.loads(l)["id"] for l in open(os.path.join(ROOT, "properties.jsonl"))]
checks = []
for pid in props:
    if pid in CHECKS:
        cat, tech, text, note, ref = CHECKS[pid]
        checks.append({
            "property_id": pid,
            "quick_cmd": f"./check {pid} --tier quick",
            "thorough_cmd": f"./check {pid} --tier thorough",
            "evidence_file": f"evidence/{pid}.json",
            "replay_cmd_template": f"./check {pid} --replay {{path}}",
            "engine": "vsim",
            "level_claimed": {"category": cat, "text": text, "design_ref": ref},
            "level_note": note,
            "technique": tech,
        })
na = []
for pid in props:
    if pid in CHECKS: continue
    reason = NA.get(pid) or NOT_YET.get(pid) or "check not built yet in this tree (work in progress, see DESIGN.md 8a construction order); not claimed until it exists"
    na.append({"property_id": pid, "reason": reason})
hooks_commits = [l.strip() for l in open(os.path.join(ROOT, "hooks_commits.txt"))] if os.path.exists(os.path.join(ROOT, "hooks_commits.txt")) else []
m = {
 "version": 1,
 "setup_cmd": f"cd /verif/sim && {ENV} go build -o ../bin/vsim ./cmd/vsim",
 "hooks": {
   "guard": "verif",
   "enable": "go build -tags verif (only the compile driver sim/cmd/codrv links the tagged file rewriter/verif_stages.go)",
   "baseline_off_cmd": f"cd /repo && {ENV} go test -vet=off -count=1 -timeout 300s {BASE_PKGS}",
   "source_commits": hooks_commits,
   "add_only": True,
 },
 "engines": [{"name": "vsim", "path": "sim/cmd/vsim", "serves_properties": sorted(CHECKS), "kind_free_text": "deterministic simulator: seeded consumer/scheduler/fault plans over the real runtime and real compiler output, reference coroutine model, history comparison, shrinking, replay"}],
 "checks": checks,
 "not_applicable": na,
 "notes": "All checks: exit 0 held / 1 VIOLATION / 2 infrastructure. VERIF_SEED selects the root seed. known_findings.txt lists recorded genuine defects.",
}
json.dump(m, open(os.path.join(ROOT, "MANIFEST.json"), "w"), indent=1)
subprocess.check_call(["python3-vt", "-c", "import json,jsonschema;jsonschema.validate(json.load(open('%s/MANIFEST.json')),json.load(open('/root/.vp/MANIFEST.schema.json')));print('MANIFEST valid')" % ROOT])
