#!/bin/bash
# usage: tools/seeded_iso.sh <tier> <tag>:<check>[,<check>...] ...
# Runs checks against seeded changes WITHOUT touching /repo: each change is applied in a scratch
# worktree of /repo (under $TMPDIR, removed afterwards) and the check is pointed at it with VERIF_REPO.
# Meant to be started with 'vp run' (works on a snapshot of /verif, so evidence/ of /verif is not
# overwritten by mutant runs). Prints one line 'RESULT tag=.. check=.. tier=.. exit=..' per run.
set -u
cd "$(dirname "$0")/.."
tier=$1; shift
for spec in "$@"; do
  tag=${spec%%:*}; checks=${spec#*:}
  wt=$(mktemp -d ${TMPDIR:-/tmp}/mutwt-XXXXXX); rmdir $wt
  git -C /repo worktree add -q --detach $wt HEAD || { echo "RESULT tag=$tag worktree-failed"; continue; }
  P="$(pwd)/seeded/$tag/patch.diff"
  if ! git -C $wt apply "$P" 2>/dev/null && ! git -C $wt apply --3way "$P" 2>/dev/null; then
    echo "RESULT tag=$tag patch-does-not-apply"; git -C /repo worktree remove --force $wt; continue
  fi
  for id in ${checks//,/ }; do
    rm -rf replays
    out=$(VERIF_REPO=$wt timeout ${PATCH_TIMEOUT:-1800} ./check $id --tier $tier 2>&1); rc=$?
    echo "$out" | grep -E "^(VIOLATION|  class|INFRA)" | head -4 | cut -c1-240
    echo "RESULT tag=$tag check=$id tier=$tier exit=$rc"
  done
  git -C /repo worktree remove --force $wt
done
