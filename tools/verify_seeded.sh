#!/bin/bash
# usage: tools/verify_seeded.sh <id> [tag]  — confirms a sub-agent's seeded change in its worktree /tmp/wt/<id>:
# suite passes with the change, demo fails with it, demo passes without it. Then stores it under /verif/seeded/<tag>.
set -u
id=$1; tag=${2:-$id}
wt=/tmp/wt/$id; demo=$wt/demo_$id
export GOFLAGS=-mod=mod GOPROXY=off GOSUMDB=off GOTOOLCHAIN=local
cd $wt || exit 2
git diff > /tmp/wt/$id.cur.diff
[ -s /tmp/wt/$id.cur.diff ] || { echo "no change in worktree"; exit 2; }
echo "== files changed: $(git diff --stat | tail -1)"
go build ./... || { echo "BUILD FAILS"; exit 1; }
suite=$(go test -vet=off -count=1 -timeout 300s ./example ./example/lexer ./example/linq ./example/sched1 ./example/sched2 ./example/tree ./rewriter ./seq 2>&1 | grep -c "^ok")
echo "== suite with change: $suite/8 ok"
( cd $demo && timeout 600 bash ./run.sh >/tmp/wt/$id.with.log 2>&1 ); with=$?
git stash -q
( cd $demo && timeout 600 bash ./run.sh >/tmp/wt/$id.without.log 2>&1 ); without=$?
git stash pop -q
echo "== demo with change: exit $with; without: exit $without"
ok=no; [ "$suite" = 8 ] && [ $with -ne 0 ] && [ $without -eq 0 ] && ok=yes
echo "== confirmed: $ok"
dst=/verif/seeded/$tag; rm -rf $dst; mkdir -p $dst
cp /tmp/wt/$id.cur.diff $dst/patch.diff
rsync -a --exclude out --exclude 'out_tmp' --exclude '*.log' $demo/ $dst/demo/ 2>/dev/null
python3 - "$tag" "$id" "$suite" "$with" "$without" "$ok" <<'PY'
import json,sys,os
tag,id,suite,w,wo,ok=sys.argv[1:7]
md=open(f'/verif/seeded/{tag}/demo/MUTANT.md').read() if os.path.exists(f'/verif/seeded/{tag}/demo/MUTANT.md') else ''
meta={"property":id,"written_by":"independent sub-agent given only the property text and a scratch worktree",
 "confirmed_by_me":{"suite_with_change_ok_packages":int(suite),"demo_exit_with_change":int(w),"demo_exit_without_change":int(wo),"confirmed":ok=="yes",
   "commands":"in the agent's worktree: go build ./...; the 8-package suite; demo/run.sh with the change; git stash; demo/run.sh; git stash pop"},
 "needs_to_manifest":"see demo/MUTANT.md","checks_run":[]}
json.dump(meta,open(f'/verif/seeded/{tag}/meta.json','w'),indent=1)
PY
exit 0
