#!/bin/bash
# usage: tools/run_seeded.sh <tag> <check-id> [tier] — applies a seeded change to /repo, runs a check, restores /repo
set -u
cd "$(dirname "$0")/.."
tag=$1; id=$2; tier=${3:-quick}
rm -rf replays
out=$(PATCH_TIMEOUT=${PATCH_TIMEOUT:-1500} tools/with_patch.sh seeded/$tag/patch.diff -- ./check $id --tier $tier 2>&1)
rc=$(echo "$out" | grep -o "with_patch: command exit=[0-9]*" | grep -o "[0-9]*$")
echo "$out" | grep -E "^(VIOLATION|  class|INFRA|C[0-9]+ tier)" | head -5 | cut -c1-260
echo "RESULT tag=$tag check=$id tier=$tier exit=$rc"
python3 - "$tag" "$id" "$tier" "$rc" <<'PY'
import json,sys
tag,id,tier,rc=sys.argv[1:5]
p=f'/verif/seeded/{tag}/meta.json'
m=json.load(open(p))
m['checks_run']=[c for c in m['checks_run'] if not (c['check']==id and c['tier']==tier)]
m['checks_run'].append({"check":id,"tier":tier,"exit":int(rc) if rc else None,"caught":rc=="1"})
json.dump(m,open(p,'w'),indent=1)
PY
git -C /repo status --short | head -3
