#!/usr/bin/env python3
"""Rewrites the 'fixed:' lines of known_findings.txt from this table, looking the commit ids up by subject."""
import subprocess,re,os
ROOT=os.path.dirname(os.path.dirname(os.path.abspath(__file__)))
T=[
 ("C17","seq.For no longer grows the stack","seq.For re-entered its loop from inside the body continuation: ~3.6 stack frames per non-yielding iteration (depth 36010 at n=10^4), fatal stack overflow after a few million iterations"),
 ("C10","string range iterator yields byte offsets","seq.NewStringIter used rune indices as keys (\"éa\" gave key 1 for 'a', range gives 2)"),
 ("C10","integer range iterator yields 0..n-1","seq.NewIntegerIter(n) yielded 1..n instead of 0..n-1"),
 ("C10","map range iterator no longer panics","seq.NewMapIter Current() panicked on a nil interface key or element (map[any]any{nil: 10})"),
 ("C01","accept a tag-less switch","tag-less switch containing a yield: compiler panic \"invalid switch\" (acceptance gate of the control-flow workload)"),
 ("C01","termination check panicked on every unlabelled break","unlabelled break inside a trailing native for/switch: compiler panic \"labelled break not supported\" (inverted test in hasBreak)"),
 ("C01","a switch case body ending in a yielding if","switch case body ending in a yielding if: compiler panic \"illegal state\""),
 ("C01","loop body ending in a yielding switch","loop body ending in a yielding switch with a fall-out path: generated code does not build (\"missing return\")"),
 ("C06","range over an iterator whose body re-declares","consumer loop 'for v := range it { v := ... }': generated code does not build (redeclaration)"),
 ("C07","eta reduction only when the callee is a stable","eta reduction of 'func(){ return f() }' with f a reassigned function variable / method value on a reassigned receiver or of a value receiver through a pointer / loop condition 'for p()' changed behaviour; with f a builtin or conversion the output did not build (also C13)"),
 ("C12","reject a yield left in a position","yield in an if/switch initialiser, in a go statement, in a native range over pointer-to-array: compiled, built and silently dropped the yield"),
 ("C04","range over a typed integer","range over a non-int integer type in a generator: generated code does not build (NewIntegerIter(int))"),
 ("C01","a for/switch with a yielding initialiser at the end","for/switch with yielding initialiser and otherwise trivial rest as last statement of a case/if body: generated code does not build (\"missing return\")"),
 ("C03","a yielding for-post could capture","for-loop with a yielding post that reads a variable shadowed by a declaration at the top of the (trivially ending) loop body: post saw the body's variable"),
 ("C05","dead statements after break/continue","dead code after break containing a for loop with YieldFrom in init/post: compiler panic \"format.Node internal error\""),
 ("C16","dead statements after break/continue","dead Yield after break in a generator: go:generate mode (file visited once per package variant) panicked with \"invalid yield func signature\""),
 ("C12","a range over a function inside a plain closure","negative control: range over a function inside a plain closure nested in a generator: compiler panic \"implement me: range func\""),
 ("C12","goto inside a plain closure","negative control: goto inside a plain closure nested in a generator rejected with \"goto not supported\""),
 ("C01","a yielding three-clause for loop without a condition","'for init; ; post { ...Yield... }' (no condition): compiler panic (typed nil condition literal reaches the printer); reported by a sub-agent, not in the generator's loop forms before"),
 ("C03","a ':=' that re-uses a variable declared a new one","'p, q := f()' re-using p after a yield declared a new p inside the continuation thunk: closures created before the yield kept the old variable / output did not build; reported by a sub-agent, shape added to the scope profile"),
 ("C01","a break after a yield inside a switch case left","A1: break that follows a Yield inside a switch case was emitted as the Break signal and left the enclosing loop / ended the generator (was a known finding; repaired with the new combinator seq.Breakable)"),
 ("C01","continue skipped the post statement","A2: continue in a for loop whose post statement yields skipped the post statement (was a known finding; repaired with the new combinator seq.Continuable)"),
 ("C07","import clean-up ran before the reductions","import clean-up ran before eta reduction for the first file of an invocation: a package whose last use the reduction removed stayed imported, output did not build; reported by a sub-agent"),
 ("C04","range over a named string type","range over a named string type in a generator: generated code does not build; reported by two sub-agents, shape added to the range profile"),
 ("C12","a labelled range statement inside a plain closure","negative control: labelled range inside a plain closure of a generator: compiler panic \"InsertBefore node not contained in slice\"; reported by a sub-agent"),
 ("C13","doc comments and directives of a file were dropped","file with a generator function literal: all doc comments incl. //go: directives dropped from the generated file; reported by a sub-agent"),
 ("C16","files left in the intermediate directory by a killed run","stale <dir>_tmp of a killed run (or any directory of that name) holding rewritten files: they were optimised and written into the package as extra derived files; reported by a sub-agent"),
 ("C12","break inside a select statement of a plain closure","negative control: break inside a select in a plain closure of a generator became seq.Break, output did not build; reported by a sub-agent"),
 ("C12","Yield used as a function value","Yield used as a function value ('y := Yield[int]; y(1)') was accepted and the value silently dropped; reported by a sub-agent"),
 ("C06","'for range it' over an iterator without a loop variable","'for range it' (no loop variable) over an iterator: compiler panic \"invalid for range\"; reported by a sub-agent, form added to the consumer profile"),
]
log=subprocess.check_output(["git","-C","/repo","log","--format=%h %s"],text=True).splitlines()
def find(sub):
    m=[l.split()[0] for l in log if sub in l]
    assert len(m)==1,(sub,m)
    return m[0]
p=os.path.join(ROOT,"known_findings.txt")
lines=[l for l in open(p).read().splitlines() if not l.startswith("fixed: ")]
idx=max(i for i,l in enumerate(lines) if l.startswith("#"))+1
fixed=[f"fixed: property={pid} {find(sub)} {what}" for pid,sub,what in T]
open(p,"w").write("\n".join(lines[:idx]+fixed+lines[idx:])+"\n")
print(len(fixed),"fixed entries")
