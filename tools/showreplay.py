#!/usr/bin/env python3
import json,sys,re
for f in sys.argv[1:]:
    d=json.load(open(f))
    print('='*60,f,'\n',d.get('Class'),d.get('Func'),(d.get('Scenario') or {}).get('Iters'))
    if d.get('Kind')=='gate':
        print(d.get('Stage'),d.get('Msg')); print(d['Files'].get('function') or '')
        for k,v in d['Files'].items():
            if k!='function' and k.startswith('src') and 'reg.go' not in k: print('//',k); print(v)
        continue
    if 'Files' in d:
        for k,s in d['Files'].items():
            if k.startswith('src') and 'reg' not in k:
                m=re.search(r'func (\(r \w+\) )?%s(\[T any\])?\(.*?\n}\n'%d['Func'],s,re.S)
                if m: print(m.group(0))
    at=d.get('DiffAt',0)
    print('EXP',d['Expected'][max(0,at-5):at+3]); print('OBS',d['Observed'][max(0,at-5):at+3])
