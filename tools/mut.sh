#!/bin/bash
# usage: tools/mut.sh <tag> <check> [<check>...]  — like seeded_iso.sh but from the working tree of /verif
# (development aid; evidence goes to evidence.alt/). /repo is not touched.
set -u
cd "$(dirname "$0")/.."
tag=$1; shift
wt=$(mktemp -d /tmp/mutwt-XXXXXX); rmdir $wt
git -C /repo worktree add -q --detach $wt HEAD || exit 2
P="$(pwd)/seeded/$tag/patch.diff"
if ! git -C $wt apply "$P" 2>/dev/null && ! git -C $wt apply --3way "$P" 2>/dev/null; then
  echo "RESULT tag=$tag patch-does-not-apply"; git -C /repo worktree remove --force $wt; exit 3
fi
for id in "$@"; do
  rm -rf replays
  out=$(VERIF_REPO=$wt timeout ${PATCH_TIMEOUT:-1800} ./check $id --tier ${TIER:-quick} 2>&1); rc=$?
  echo "$out" | grep -E "^(  class|INFRA)" | cut -c1-200 | sort | uniq -c | sort -rn | head -4
  echo "RESULT tag=$tag check=$id exit=$rc"
done
git -C /repo worktree remove --force $wt
