#!/bin/bash
# Determinism self-test: the same VERIF_SEED must explore the same cases and produce the same
# counters regardless of worker count and GOMAXPROCS. Compares evidence files with the
# timing-dependent keys and the samples removed.
# usage: tools/determinism.sh <id> [runs]
set -u
cd "$(dirname "$0")/.."
id=$1; runs=${2:-4}
norm() { python3 - "$1" <<'PY'
import json,sys
d=json.load(open(sys.argv[1]))
c=d['coverage']
for k in ('evaluations_per_hour','samples','worker_processes'): c.pop(k,None)
d.pop('wall_s',None)
print(json.dumps(d,sort_keys=True))
PY
}
export GOFLAGS=-mod=mod GOPROXY=off GOSUMDB=off GOTOOLCHAIN=local
( cd sim && go build -o ../bin/vsim ./cmd/vsim && go build -tags verif -o ../bin/codrv ./cmd/codrv ) || exit 2
ref=""
i=0
for cfg in "16 16" "1 1" "4 4" "16 2" "5 16" "3 1"; do
  [ $i -ge $runs ] && break
  set -- $cfg
  GOMAXPROCS=$2 ./bin/vsim check $id --tier quick --workers $1 >/dev/null 2>&1
  cur=$(norm evidence/$id.json)
  if [ -z "$ref" ]; then ref="$cur"; else
    if [ "$cur" != "$ref" ]; then echo "NONDETERMINISTIC $id (workers=$1 GOMAXPROCS=$2)"; diff <(echo "$ref" | tr ',' '\n') <(echo "$cur" | tr ',' '\n') | head -10; exit 1; fi
  fi
  i=$((i+1))
done
echo "deterministic: $id x $i configurations"
