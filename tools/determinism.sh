#!/bin/bash
# Determinism self-test: the same VERIF_SEED must explore the same cases and produce the same
# counters regardless of worker count and GOMAXPROCS. Compares evidence files with the
# timing-dependent keys and the samples removed.
# usage: tools/determinism.sh <id> [runs]
set -u
cd "$(dirname "$0")/.."
export VERIF_ROOT="$(pwd)" # (a snapshot run must not write into /verif/evidence)
id=$1; runs=${2:-4}
norm() { python3 - "$1" <<'PY'
import json,sys
d=json.load(open(sys.argv[1]))
c=d['coverage']
for k in ('evaluations_per_hour','samples','worker_processes'): c.pop(k,None)
d.pop('wall_s',None)
for k in [k for k in c.get('counters',{}) if k.endswith('_order_dependent')]: c['counters'].pop(k)
if 'unreached' in c: c['unreached']=[k for k in c['unreached'] if not k.endswith('_order_dependent')]
print(json.dumps(d,sort_keys=True))
PY
}
export GOFLAGS=-mod=mod GOPROXY=off GOSUMDB=off GOTOOLCHAIN=local
( cd sim && go build -o ../bin/vsim ./cmd/vsim && go build -tags verif -o ../bin/codrv ./cmd/codrv ) || exit 2
ref=""
i=0
W=(16 1 4 16 5 3 8 2 12 7); G=(16 1 4 2 16 1 8 4 2 16 4)
while [ $i -lt $runs ]; do
  set -- ${W[$((i % 10))]} ${G[$((i % 11))]}
  GOMAXPROCS=$2 ./bin/vsim check $id --tier quick --workers $1 >/dev/null 2>&1
  cur=$(norm evidence/$id.json)
  if [ -z "$ref" ]; then ref="$cur"; else
    if [ "$cur" != "$ref" ]; then echo "NONDETERMINISTIC $id (workers=$1 GOMAXPROCS=$2)"; diff <(echo "$ref" | tr ',' '\n') <(echo "$cur" | tr ',' '\n') | head -10; exit 1; fi
  fi
  i=$((i+1))
done
echo "deterministic: $id x $i configurations"
