#!/bin/bash
# usage: tools/verify_seeded3.sh <id> <tag> [wtroot]  — confirms a sub-agent's seeded change in its worktree
# <wtroot>/<id> (default /tmp/wt3): suite passes with the change, demo fails with it, demo passes without it
# (the change is taken out with 'git apply -R', not 'git stash': the stash list is shared between worktrees).
# Then stores it under /verif/seeded/<tag>.
set -u
id=$1; tag=${2:-$id}; root=${3:-/tmp/wt3}
wt=$root/$id; demo=$wt/demo_$id
export GOFLAGS=-mod=mod GOPROXY=off GOSUMDB=off GOTOOLCHAIN=local
cd $wt || exit 2
git diff > $root/$id.cur.diff
[ -s $root/$id.cur.diff ] || { echo "no change in worktree"; exit 2; }
echo "== files changed: $(git diff --stat | tail -1)"
go build ./... || { echo "BUILD FAILS"; exit 1; }
suite=$(go test -vet=off -count=1 -timeout 300s ./example ./example/lexer ./example/linq ./example/sched1 ./example/sched2 ./example/tree ./rewriter ./seq 2>&1 | grep -c "^ok")
echo "== suite with change: $suite/8 ok"
( cd $demo && timeout 900 bash ./run.sh >$root/$id.with.log 2>&1 ); with=$?
git apply -R $root/$id.cur.diff || { echo "cannot revert"; exit 2; }
( cd $demo && timeout 900 bash ./run.sh >$root/$id.without.log 2>&1 ); without=$?
git apply $root/$id.cur.diff || { echo "cannot re-apply"; exit 2; }
echo "== demo with change: exit $with; without: exit $without"
ok=no; [ "$suite" = 8 ] && [ $with -ne 0 ] && [ $with -ne 124 ] && [ $without -eq 0 ] && ok=yes
echo "== confirmed: $ok"
dst=/verif/seeded/$tag; rm -rf $dst; mkdir -p $dst
cp $root/$id.cur.diff $dst/patch.diff
rsync -a --exclude out --exclude 'out_tmp' --exclude '*.log' --exclude '*.test' --exclude 'bin' $demo/ $dst/demo/ 2>/dev/null
python3 - "$tag" "$id" "$suite" "$with" "$without" "$ok" <<'PY'
import json,sys,os
tag,id,suite,w,wo,ok=sys.argv[1:7]
meta={"property":id,"written_by":"independent sub-agent given only the property text and a scratch worktree (wave 3)",
 "confirmed_by_me":{"suite_with_change_ok_packages":int(suite),"demo_exit_with_change":int(w),"demo_exit_without_change":int(wo),"confirmed":ok=="yes",
   "commands":"in the agent's worktree: go build ./...; the 8-package suite; demo/run.sh with the change; git apply -R; demo/run.sh; git apply"},
 "needs_to_manifest":"see demo/MUTANT.md","checks_run":[]}
json.dump(meta,open(f'/verif/seeded/{tag}/meta.json','w'),indent=1)
PY
exit 0
