#!/bin/bash
# usage: tools/with_patch.sh <patch-file|-e 'sed-expr' file> -- <command...>
# Applies a patch to /repo, runs the command (with a time limit), ALWAYS restores /repo.
set -u
REPO=${VERIF_REPO:-/repo}
if ! git -C "$REPO" diff --quiet; then echo "with_patch: $REPO is dirty, refusing" >&2; exit 3; fi
restore() { git -C "$REPO" reset -q --hard HEAD; git -C "$REPO" clean -fdq -e rewriter/test/out -e rewriter/test/out_tmp >/dev/null 2>&1; }
trap restore EXIT INT TERM
if [ "$1" = "-e" ]; then sed -i "$2" "$REPO/$3"; shift 3; else git -C "$REPO" apply "$(realpath "$1")" 2>/dev/null || git -C "$REPO" apply --3way "$(realpath "$1")" || exit 3; shift; fi
[ "$1" = "--" ] && shift
git -C "$REPO" diff --stat | tail -1
timeout ${PATCH_TIMEOUT:-900} "$@"
rc=$?
echo "with_patch: command exit=$rc"
exit $rc
