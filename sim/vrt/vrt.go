// Package vrt is the only thing workload code (generated programs, hand-built terms) sees of
// the simulator. E is at once: a history event, a pre-emption point for the thread scheduler,
// the failpoint where an injected panic fires, and a stack-depth sample point.
package vrt

import (
	"fmt"
	"runtime"

	"verif/sim/hist"
)

// Ctx is the recording context of one simulated run of one implementation.
type Ctx struct {
	Hist hist.H
	Th   int // current logical thread
	H    int // handle whose consumer call is executing (-1 between calls)

	EffCount int // effects seen so far (index of the next effect)
	PanicAt  int // effect index at which E panics (-1: never)
	PanicNil bool // the injected panic carries the nil value (observable as such only with GODEBUG=panicnil=1)
	Fired    bool

	Fuel int // effect budget of the run; beyond it every E panics with OutOfFuel (0: unlimited)

	Point func() // pre-emption hook (nil: single-threaded)

	DepthOn   bool
	DepthEach int // sample when EffCount%DepthEach==0 (0 => every effect)
	MaxDepth  int
	Depths    []DepthSample
}

type DepthSample struct{ Eff, Depth int }

// Injected is the value of an injected panic; unique per (run, effect index).
type Injected struct{ Eff int }

func (i Injected) String() string { return fmt.Sprintf("injected@%d", i.Eff) }

// OutOfFuel is raised when a run exceeds its effect budget (watchdog, never a verdict).
type OutOfFuel struct{}

// C is the current context. Exactly one goroutine runs workload code at any instant
// (scheduler baton / coroutine hand-off), so a plain global is race-free.
var C *Ctx

var pcbuf = make([]uintptr, 1<<21)

func NewCtx() *Ctx { return &Ctx{H: -1, PanicAt: -1} }

func E(tag int, vals ...int) {
	c := C
	if c == nil {
		return
	}
	ev := hist.Event{K: hist.Eff, Th: c.Th, H: c.H, Tag: tag, OK: -1}
	if len(vals) > 0 {
		ev.V = make([]int64, len(vals))
		for i, v := range vals {
			ev.V[i] = int64(v)
		}
	}
	c.Hist = append(c.Hist, ev)
	idx := c.EffCount
	c.EffCount++
	if c.DepthOn && (c.DepthEach <= 1 || idx%c.DepthEach == 0) {
		d := runtime.Callers(0, pcbuf)
		if d > c.MaxDepth {
			c.MaxDepth = d
		}
		c.Depths = append(c.Depths, DepthSample{idx, d})
	}
	if idx == c.PanicAt {
		c.Fired = true
		if c.PanicNil {
			panic(nil) //nolint: the point is a panic whose value is nil
		}
		panic(Injected{idx})
	}
	if c.Fuel > 0 && c.EffCount > c.Fuel {
		panic(OutOfFuel{}) // and every later effect of the run panics again
	}
	if c.Point != nil {
		th, h := c.Th, c.H
		c.Point()
		c.Th, c.H = th, h
	}
}

// V logs an effect carrying v and returns v (an effect inside an expression).
func V(tag int, v int) int { E(tag, v); return v }

// B is V for conditions.
func B(tag int, v bool) bool {
	if v {
		E(tag, 1)
	} else {
		E(tag, 0)
	}
	return v
}

// S logs a string-valued observation (hashed into an int so histories stay numeric) and returns it.
func S(tag int, s string) string {
	h := 0
	for i := 0; i < len(s); i++ {
		h = h*131 + int(s[i])
	}
	E(tag, len(s), h)
	return s
}

// Iter is the type-erased iterator the generic driver plays scenarios on.
type Iter interface {
	MoveNext() bool
	Current() any
}

type wrap[V any] struct {
	it interface {
		MoveNext() bool
		Current() V
	}
}

func (w wrap[V]) MoveNext() bool { return w.it.MoveNext() }
func (w wrap[V]) Current() any   { return w.it.Current() }

// Wrap erases the element type; it accepts the stub co.Iter, seq.Iterator and refco.Iter alike.
func Wrap[V any](it interface {
	MoveNext() bool
	Current() V
}) Iter {
	return wrap[V]{it}
}

// Entry describes one generated function to the generic driver.
type Entry struct {
	Name  string
	Arity int
	Args  [][]int // per parameter: the values the driver may pass
	Inf   bool    // may yield forever: the consumer truncates
	New   func(args []int) Iter // generator entry: returns a fresh iterator
	Call  func(args []int) int  // plain entry (consumer / bystander): runs to completion
}
