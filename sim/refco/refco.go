// Package refco is the reference coroutine (the trusted base of every reference-relative
// oracle): the body of a generator runs on its own goroutine with strict hand-off, so
// "Yield suspends the function and MoveNext resumes it" is literally what happens.
package refco

import "runtime"

type kind uint8

const (
	kYield kind = iota
	kDone
	kPanic
)

type msg[V any] struct {
	k kind
	v V
	p any
}

type coro[V any] struct {
	body    func(*Y[V]) V
	started bool
	done    bool
	killed  bool
	cur     V
	result  V
	resume  chan V
	yield   chan msg[V]
	exited  chan struct{}
}

// Y is the handle the body uses to yield.
type Y[V any] struct{ c *coro[V] }

// Iter is the reference iterator. It is a small value (one pointer) so it can be stored,
// copied and passed exactly like the API's iterator type.
type Iter[V any] struct{ c *coro[V] }

type killer interface{ kill() }

var live []killer

// Go returns a lazy iterator over body; nothing runs before the first MoveNext.
func Go[V any](body func(*Y[V])) Iter[V] {
	return GoResult(func(y *Y[V]) (z V) { body(y); return })
}

// GoResult is Go for bodies with a return value (observable through Result).
func GoResult[V any](body func(*Y[V]) V) Iter[V] {
	c := &coro[V]{body: body}
	live = append(live, c)
	return Iter[V]{c}
}

func (c *coro[V]) run() {
	defer close(c.exited)
	returned := false // a panic whose value is nil is invisible to 'recover() != nil'
	defer func() {
		p := recover()
		if c.killed {
			return
		}
		// a panic in the body is re-raised in the resumer with its original value
		if p != nil || !returned {
			c.yield <- msg[V]{k: kPanic, p: p}
		}
	}()
	if _, ok := <-c.resume; !ok {
		returned = true
		return
	}
	r := c.body(&Y[V]{c})
	returned = true
	c.yield <- msg[V]{k: kDone, v: r}
}

func (c *coro[V]) step(sent V) bool {
	if c.done {
		return false
	}
	if !c.started {
		c.started = true
		c.resume = make(chan V)
		c.yield = make(chan msg[V])
		c.exited = make(chan struct{})
		go c.run()
	}
	c.resume <- sent
	m := <-c.yield
	var z V
	switch m.k {
	case kYield:
		c.cur = m.v
		return true
	case kDone:
		c.done = true
		c.cur = z
		c.result = m.v
		return false
	default:
		c.done = true
		c.cur = z
		panic(m.p)
	}
}

func (c *coro[V]) kill() {
	if !c.started || c.killed {
		return
	}
	c.killed = true
	select {
	case <-c.exited:
		return
	default:
	}
	close(c.resume)
	<-c.exited
}

// KillAll terminates every coroutine created since the last call (scenario clean-up; the
// caller silences the recording context first, so nothing a dying body does is observed).
func KillAll() {
	for len(live) > 0 {
		l := live
		live = nil
		for _, c := range l {
			c.kill()
		}
	}
}

func (y *Y[V]) YieldRecv(v V) V {
	y.c.yield <- msg[V]{k: kYield, v: v}
	r, ok := <-y.c.resume
	if !ok {
		runtime.Goexit()
	}
	return r
}

func (y *Y[V]) Yield(v V) { y.YieldRecv(v) }

// YieldFrom is by definition "for v := range it { Yield(v) }".
func (y *Y[V]) YieldFrom(it Iter[V]) {
	for it.MoveNext() {
		y.Yield(it.Current())
	}
}

func (it Iter[V]) MoveNext() bool {
	var z V
	return it.c.step(z)
}

func (it Iter[V]) Current() V { return it.c.cur }

func (it Iter[V]) Result() V { return it.c.result }

// Send mirrors the documented protocol: auto-start, then resume the pending yield with v.
func (it Iter[V]) Send(v V) (V, bool) {
	var z V
	if !it.c.started {
		if !it.c.step(z) {
			return z, false
		}
	}
	if it.c.step(v) {
		return it.c.cur, true
	}
	return z, false
}

func (it Iter[V]) Done() bool { return it.c.done }

// All adapts the iterator to Go's range-over-func, so that reference consumer loops use
// Go's own binding, break, continue and return.
func (it Iter[V]) All() func(func(V) bool) {
	return func(yield func(V) bool) {
		for it.MoveNext() {
			if !yield(it.Current()) {
				return
			}
		}
	}
}
