// Package core holds the job description shared by all checks and the worker protocol.
package core

import (
	"encoding/json"
	"os"
	"os/exec"
	"path/filepath"

	"verif/sim/ev"
)

// Job is the share of a check that one worker process executes.
type Job struct {
	Prop    string
	Tier    string
	Seed    uint64
	Total   int   // total number of batches of the check (all workers)
	Batches []int // batch numbers this worker owns (static assignment => worker count never changes what is explored)
	Rep     *ev.Report
	Replay  string // replay file (replay mode)
}

func (j *Job) TotalBatches() int {
	if j.Total > 0 {
		return j.Total
	}
	return len(j.Batches)
}

func (j *Job) Thorough() bool { return j.Tier == "thorough" }

// Partial is what a worker prints for the parent to merge.
type Partial struct {
	Evals      int
	Distinct   []uint64
	Samples    []any
	Counters   map[string]int
	Sets       map[string][]uint64
	Extra      map[string]any
	Violations []ev.Violation
	Known      []string
	Notes      []string
}

func Encode(r *ev.Report) []byte {
	p := Partial{Evals: r.Evals, Samples: r.Samples, Counters: r.Counters, Extra: r.Extra,
		Violations: r.Violations, Known: r.Known, Notes: r.Notes}
	for d := range r.Distinct {
		p.Distinct = append(p.Distinct, d)
	}
	p.Sets = map[string][]uint64{}
	for name, set := range r.Sets {
		for d := range set {
			p.Sets[name] = append(p.Sets[name], d)
		}
	}
	b, err := json.Marshal(p)
	if err != nil {
		panic(err)
	}
	return b
}

func Decode(b []byte, into *ev.Report) error {
	var p Partial
	if err := json.Unmarshal(b, &p); err != nil {
		return err
	}
	o := ev.NewReport(into.Prop, into.Tier, into.Seed, into.Level)
	o.Evals = p.Evals
	for _, d := range p.Distinct {
		o.Distinct[d] = struct{}{}
	}
	for name, ds := range p.Sets {
		for _, d := range ds {
			o.SetAdd(name, d)
		}
	}
	o.Samples = p.Samples
	if p.Counters != nil {
		o.Counters = p.Counters
	}
	if p.Extra != nil {
		o.Extra = p.Extra
	}
	o.Violations = p.Violations
	o.Known = p.Known
	o.Notes = p.Notes
	into.Merge(o)
	return nil
}

// PrivateGoCache gives a worker process its own Go build cache under its scratch root, primed
// with hard links to the base cache the check wrapper filled (standard library, the simulator,
// the repository): the packages a worker builds from generated programs (tens of MB per batch,
// never needed again) disappear with the scratch root instead of piling up in a shared cache.
func PrivateGoCache(root string) string {
	dir := filepath.Join(root, "gocache")
	base := os.Getenv("GOCACHE")
	if base != "" {
		if _, err := os.Stat(base); err == nil {
			if exec.Command("cp", "-al", base, dir).Run() == nil {
				return dir
			}
			os.RemoveAll(dir)
			if exec.Command("cp", "-a", base, dir).Run() == nil {
				return dir
			}
			os.RemoveAll(dir)
		}
	}
	os.MkdirAll(dir, 0o755)
	return dir
}
