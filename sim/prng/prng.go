// Package prng is the single source of randomness of the simulator: a SplitMix64
// generator whose streams are derived by *name* (never by draw order across components),
// so adding a probe or a log line cannot shift a later choice.
package prng

import "hash/fnv"

type R struct{ s uint64 }

func New(seed uint64) *R { return &R{s: seed} }

// Derive returns an independent stream named by the given labels.
func Derive(seed uint64, labels ...any) *R {
	h := fnv.New64a()
	var b [8]byte
	put := func(x uint64) {
		for i := 0; i < 8; i++ {
			b[i] = byte(x >> (8 * i))
		}
		h.Write(b[:])
	}
	put(seed)
	for _, l := range labels {
		switch v := l.(type) {
		case string:
			h.Write([]byte(v))
			h.Write([]byte{0})
		case int:
			put(uint64(v))
		case uint64:
			put(v)
		case int64:
			put(uint64(v))
		default:
			panic("prng: bad label")
		}
	}
	r := &R{s: h.Sum64()}
	r.U64() // decorrelate
	return r
}

func (r *R) Seed() uint64 { return r.s }

func (r *R) U64() uint64 {
	r.s += 0x9e3779b97f4a7c15
	z := r.s
	z = (z ^ (z >> 30)) * 0xbf58476d1ce4e5b9
	z = (z ^ (z >> 27)) * 0x94d049bb133111eb
	return z ^ (z >> 31)
}

// Intn returns a value in [0,n). n must be > 0.
func (r *R) Intn(n int) int {
	if n <= 0 {
		panic("prng: Intn(n<=0)")
	}
	return int(r.U64() % uint64(n))
}

// Range returns a value in [lo,hi].
func (r *R) Range(lo, hi int) int { return lo + r.Intn(hi-lo+1) }

func (r *R) Bool() bool { return r.U64()&1 == 1 }

// Chance is true with probability num/den.
func (r *R) Chance(num, den int) bool { return r.Intn(den) < num }

// Pick returns an index drawn according to non-negative weights (at least one > 0).
func (r *R) Pick(weights []int) int {
	t := 0
	for _, w := range weights {
		t += w
	}
	if t <= 0 {
		panic("prng: Pick with zero total weight")
	}
	x := r.Intn(t)
	for i, w := range weights {
		if x < w {
			return i
		}
		x -= w
	}
	panic("unreachable")
}

func Of[T any](r *R, xs []T) T { return xs[r.Intn(len(xs))] }

func (r *R) Perm(n int) []int {
	p := make([]int, n)
	for i := range p {
		p[i] = i
	}
	for i := n - 1; i > 0; i-- {
		j := r.Intn(i + 1)
		p[i], p[j] = p[j], p[i]
	}
	return p
}
