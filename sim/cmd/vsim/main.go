// vsim is the orchestrator of all checks.
//
//	vsim check  <id> [--tier quick|thorough] [--workers n]
//	vsim worker <id> --tier t --batches 0,3,6      (internal: one worker's share)
//	vsim replay <id> <file>
package main

import (
	"bytes"
	"context"
	"encoding/json"
	"flag"
	"fmt"
	"os"
	"os/exec"
	"runtime"
	"strconv"
	"strings"
	"sync"
	"syscall"
	"time"

	"verif/sim/core"
	"verif/sim/ev"
	"verif/sim/layerc"
)

func seed() uint64 {
	s := os.Getenv("VERIF_SEED")
	if s == "" {
		return 1
	}
	v, err := strconv.ParseInt(s, 10, 64)
	if err != nil {
		ev.Infra("bad VERIF_SEED %q", s)
	}
	return uint64(v)
}

func main() {
	if len(os.Args) == 2 && os.Args[1] == "mkknown" {
		layerc.MakeKnown()
		return
	}
	if len(os.Args) < 3 {
		fmt.Fprintln(os.Stderr, "usage: vsim check|worker|replay <id> ...")
		os.Exit(2)
	}
	mode, id := os.Args[1], os.Args[2]
	fs := flag.NewFlagSet("vsim", flag.ExitOnError)
	tier := fs.String("tier", os.Getenv("VERIF_TIER"), "quick|thorough")
	workers := fs.Int("workers", 0, "worker processes (default: number of CPUs)")
	batches := fs.String("batches", "", "comma separated batch numbers (worker mode)")
	total := fs.Int("total", 0, "total number of batches (worker mode)")
	replay := fs.String("replay", "", "replay file")
	fs.Parse(os.Args[3:])
	if *tier == "" {
		*tier = "quick"
	}
	if *tier != "quick" && *tier != "thorough" {
		ev.Infra("bad tier %q", *tier)
	}
	chk, ok := registry[id]
	if !ok {
		ev.Infra("unknown check %q", id)
	}
	ensureEnv(chk.env)
	switch mode {
	case "worker":
		rep := ev.NewReport(id, *tier, int64(seed()), chk.level)
		job := &core.Job{Prop: id, Tier: *tier, Seed: seed(), Rep: rep, Total: *total}
		for _, s := range strings.Split(*batches, ",") {
			if s == "" {
				continue
			}
			n, err := strconv.Atoi(s)
			if err != nil {
				ev.Infra("bad batch list %q", *batches)
			}
			job.Batches = append(job.Batches, n)
		}
		runParts(chk, job)
		os.Stdout.Write(core.Encode(rep))
	case "replay":
		if *replay == "" && fs.NArg() > 0 {
			*replay = fs.Arg(0)
		}
		if chk.replay == nil {
			ev.Infra("check %s has no replay", id)
		}
		os.Exit(chk.replay(id, *replay))
	case "check":
		os.Exit(runCheck(id, chk, *tier, *workers))
	default:
		ev.Infra("unknown mode %q", mode)
	}
}

func runCheck(id string, chk check, tier string, workers int) int {
	rep := ev.NewReport(id, tier, int64(seed()), chk.level)
	rep.Rule = chk.rule
	rep.Assumptions = chk.assumptions
	rep.Components = chk.components
	nb := 0
	for _, p := range chk.parts {
		nb += p.n(tier)
	}
	if workers <= 0 {
		workers = runtime.NumCPU()
	}
	if chk.maxWorkers > 0 && workers > chk.maxWorkers {
		workers = chk.maxWorkers
	}
	if workers > nb {
		workers = nb
	}
	// static assignment: batch b goes to worker b mod W; what is explored does not depend on W
	lists := make([][]string, workers)
	for b := 0; b < nb; b++ {
		lists[b%workers] = append(lists[b%workers], strconv.Itoa(b))
	}
	outs := make([][]byte, workers)
	errs := make([]error, workers)
	stderrs := make([]bytes.Buffer, workers)
	var wg sync.WaitGroup
	for w := 0; w < workers; w++ {
		w := w
		wg.Add(1)
		go func() {
			defer wg.Done()
			ctx, cancel := context.WithTimeout(context.Background(), workerTimeout(tier))
			defer cancel()
			cmd := exec.CommandContext(ctx, os.Args[0], "worker", id, "--tier", tier, "--batches", strings.Join(lists[w], ","), "--total", strconv.Itoa(nb))
			cmd.Stderr = &stderrs[w]
			cmd.Env = os.Environ()
			outs[w], errs[w] = cmd.Output()
		}()
	}
	wg.Wait()
	for w := 0; w < workers; w++ {
		if errs[w] != nil {
			if class := fatalInSUT(stderrs[w].String()); class != "" {
				// the code under test brought the worker process down (the Go runtime cannot
				// recover a stack overflow or a deadlock): the seed and the batch list reproduce it
				doc := &crashReplay{Property: id, Layer: "crash", Seed: seed(), Tier: tier, Batches: lists[w], Total: nb, Class: class, Stderr: firstLines(stderrs[w].String(), 60)}
				path := ev.WriteReplay(id, int64(seed()), 990000+w, doc)
				rep.Violations = append(rep.Violations, ev.Violation{Prop: id, Class: class, Replay: path})
				continue
			}
			os.Stderr.Write(stderrs[w].Bytes())
			ev.Infra("worker %d of %s failed: %v", w, id, errs[w])
		}
		if err := core.Decode(outs[w], rep); err != nil {
			os.Stderr.Write(outs[w])
			ev.Infra("worker %d of %s printed no report: %v", w, id, err)
		}
	}
	rep.Extra["batches"] = nb
	rep.Extra["worker_processes"] = workers
	if chk.post != nil {
		chk.post(rep)
	}
	return rep.Finish()
}

// workerTimeout is the watchdog of one worker process; its expiry is exit 2, never a verdict.
func workerTimeout(tier string) time.Duration {
	if tier == "thorough" {
		return 90 * time.Minute
	}
	return 15 * time.Minute
}

// runParts dispatches the worker's global batch numbers to the parts of the check; each
// part sees its own local batch numbering.
func runParts(chk check, job *core.Job) {
	off := 0
	for _, p := range chk.parts {
		n := p.n(job.Tier)
		sub := &core.Job{Prop: job.Prop, Tier: job.Tier, Seed: job.Seed, Rep: job.Rep, Total: n}
		for _, b := range job.Batches {
			if b >= off && b < off+n {
				sub.Batches = append(sub.Batches, b-off)
			}
		}
		if len(sub.Batches) > 0 {
			p.fn(sub)
		}
		off += n
	}
}

// ensureEnv re-executes vsim with the environment a check needs (GODEBUG settings are read
// when the process starts). Workers inherit it.
func ensureEnv(env []string) {
	missing := false
	for _, kv := range env {
		k, v, _ := strings.Cut(kv, "=")
		if cur := os.Getenv(k); cur != v {
			if k == "GODEBUG" && cur != "" && !strings.Contains(cur, v) {
				v = cur + "," + v
			} else if k == "GODEBUG" && strings.Contains(cur, v) {
				continue
			}
			os.Setenv(k, v)
			missing = true
		}
	}
	if !missing {
		return
	}
	exe, err := os.Executable()
	if err != nil {
		ev.Infra("%v", err)
	}
	if err := syscall.Exec(exe, os.Args, os.Environ()); err != nil {
		ev.Infra("re-exec: %v", err)
	}
}

// crashReplay records a worker process that the code under test brought down.
type crashReplay struct {
	Property string
	Layer    string
	Seed     uint64
	Tier     string
	Batches  []string
	Total    int
	Class    string
	Stderr   string
}

// fatalInSUT classifies a worker's stderr: a fatal runtime error with a frame of the
// repository's runtime on the crashing goroutine is the repository's doing.
func fatalInSUT(stderr string) string {
	for _, fatal := range []string{"fatal error: stack overflow", "fatal error: all goroutines are asleep - deadlock!"} {
		i := strings.Index(stderr, fatal)
		if i < 0 {
			continue
		}
		head := stderr[i:]
		if len(head) > 6000 {
			head = head[:6000]
		}
		if strings.Contains(head, "/seq/seq.go:") || strings.Contains(head, "/seq/iter.go:") || strings.Contains(head, "go-co/seq.") {
			return "the runtime under test crashed the process: " + strings.TrimPrefix(fatal, "fatal error: ")
		}
	}
	return ""
}

func firstLines(s string, n int) string {
	l := strings.Split(s, "\n")
	if len(l) > n {
		l = l[:n]
	}
	return strings.Join(l, "\n")
}

// replayCrash re-runs the worker that crashed and expects the same fatal error.
func replayCrash(id, path string) int {
	data, err := os.ReadFile(path)
	if err != nil {
		ev.Infra("%v", err)
	}
	var doc crashReplay
	if err := json.Unmarshal(data, &doc); err != nil {
		ev.Infra("%v", err)
	}
	cmd := exec.Command(os.Args[0], "worker", id, "--tier", doc.Tier, "--batches", strings.Join(doc.Batches, ","), "--total", strconv.Itoa(doc.Total))
	cmd.Env = append(os.Environ(), "VERIF_SEED="+strconv.FormatUint(doc.Seed, 10))
	var stderr bytes.Buffer
	cmd.Stderr = &stderr
	_, err = cmd.Output()
	if err == nil {
		fmt.Printf("REPLAY-PASSED property=%s (the worker no longer crashes)\n", id)
		return 0
	}
	if class := fatalInSUT(stderr.String()); class == doc.Class {
		fmt.Printf("VIOLATION property=%s replay=%s\n  class: %s\n", id, path, class)
		return 1
	}
	fmt.Printf("REPLAY-DIVERGED property=%s: the worker fails differently now\n", id)
	return 2
}
