package main

import (
	"verif/sim/core"
	"verif/sim/ev"
	"verif/sim/layerc"
	"verif/sim/layerd"
	"verif/sim/layerr"
)

// part is one layer's share of a check: fn runs `quick`/`thorough` batches of it.
type part struct {
	name     string
	fn       func(*core.Job)
	quick    int
	thorough int
}

func (p part) n(tier string) int {
	if tier == "thorough" {
		return p.thorough
	}
	return p.quick
}

type check struct {
	parts       []part
	replay      func(id, path string) int
	post        func(*ev.Report)
	level       string
	maxWorkers  int
	rule        string
	assumptions []string
	components  map[string]string
}

var compR = map[string]string{
	"github.com/goghcrow/go-co/seq":            "real code, linked from /repo's working tree",
	"consumer / thread scheduler / fault plan": "simulator (sim/sched, sim/layerr)",
	"reference interpreter + coroutine":        "model (sim/layerr evalRef on sim/refco)",
	"effects inside thunks/conds/posts":        "workload code calling sim/vrt",
}

var registry = map[string]check{
	"C16": {parts: []part{{"disk", layerd.C16, 16, 96}}, level: "fault_enumeration", rule: "wip", components: compR},
	"C15": {parts: []part{{"disk", layerd.C15, 16, 48}}, level: "fault_enumeration", rule: "wip", components: compR},
	"C07": {parts: []part{{"compiled", layerc.C07, 16, 160}}, level: "exploration", rule: "wip", components: compR},
	"C13": {parts: []part{{"compiled", layerc.C13, 16, 160}}, level: "exploration", rule: "wip", components: compR},
	"C03": {parts: []part{{"compiled", layerc.C03, 16, 160}}, level: "exploration", rule: "wip", components: compR},
	"C04": {parts: []part{{"compiled", layerc.C04, 16, 160}}, level: "exploration", rule: "wip", components: compR},
	"C05": {parts: []part{{"compiled", layerc.C05, 16, 160}}, level: "exploration", rule: "wip", components: compR},
	"C06": {parts: []part{{"compiled", layerc.C06, 16, 160}}, level: "exploration", rule: "wip", components: compR},
	"C02": {
		parts: []part{{"compiled", layerc.C02, 16, 160}},
		level: "exploration", rule: "wip", components: compR,
	},
	"C01": {
		parts: []part{{"compiled", layerc.C01, 16, 160}},
		level: "exploration", rule: "wip", components: compR,
	},
	"C08": {
		parts:  []part{{"runtime", layerr.C08, 32, 320}},
		replay: layerr.Replay, level: "exploration",
		rule: "cases = seeded combinator terms (swarm over constructor subsets, thunks with stateful effects/conditions) x a full-drain consumer history with Current/Send/Result/quiesce steps, compared event by event with the reference interpreter run as a coroutine; plus Combine associativity/unit laws as metamorphic runs of the real code. Non-trivial = the term yields at least once and the history has >= 2 generator-side effects; distinct = digest of (term text, op list).",
		assumptions: []string{"the reference interpreter (structured loops with break/continue/return, ~70 lines) and refco are correct",
			"a deterministic full-drain history contains every consumer truncation as a prefix"},
		components: compR,
	},
	"C09": {
		parts:  []part{{"runtime", layerr.C09, 32, 256}},
		replay: layerr.Replay, level: "exploration",
		rule:        "cases = (generator from the canonical family: n yields with/without result, echo generators; or a random term) x a seeded operation history over {MoveNext, Current, Send(unique v), Result} biased to the protocol boundaries, compared event by event with the sequential reference model (refco state machine: unstarted/suspended/done). Result is compared only once the model is done (its value is masked before). Non-trivial = >= 3 ops and >= 1 successful advance; distinct = digest of (term, ops).",
		assumptions: []string{"refco implements the documented protocol (auto-start on Send, zero Current before start/after exhaustion)"},
		components:  compR,
	},
	"C10": {
		parts:  []part{{"runtime", layerr.C10, 16, 64}},
		replay: layerr.ReplayC10, level: "exploration",
		rule:        "cases = (iterator kind: string/int/slice/slice of any/map/map of any/chan) x input x step script (Current read once or twice after each advance, then mutator/producer steps: element writes ahead/behind the cursor, append, reslice, map overwrite/delete, channel send/close). Strings: all strings up to length 3 (quick) / 4 (thorough) over a 12-symbol alphabet of ASCII, 2/3/4-byte runes, invalid and truncated sequences, surrogate halves and NUL are enumerated, plus random longer strings and raw bytes. Oracle: the native range statement over the same value run as a coroutine under the same script; multi-entry maps by the spec-derived invariant (each present key exactly once with its current value, deleted-before-reached never), which is self-checked against native range on every case. Non-trivial = history of >= 4 events; distinct = digest of the case.",
		assumptions: []string{"Go's range statement is the specification", "strings and ints have no second actor: that part is seeded/enumerated inputs, not interleavings (DESIGN.md 4 C10)"},
		components:  compR,
	},
	"C14": {
		parts:  []part{{"runtime", layerr.C14, 32, 256}, {"compiled", layerc.C14, 16, 128}},
		replay: layerr.Replay, level: "exploration",
		rule:        "cases = k<=6 iterators over <=3 term descriptions (iterators may be started from ONE shared Seq value) owned by m<=4 consumer threads; the seeded scheduler picks the running thread at every op boundary and at every effect point inside a step. Oracle (self-relative): each iterator's projection of the interleaved history equals the history of the same iterator consumed alone by the same ops; secondary: the interleaved history equals the reference's under the same choices. Non-trivial = >= 2 iterators, >= 2 thread switches, >= 2 effects; distinct = digest of (terms, ownership, ops, choices).",
		assumptions: []string{"one goroutine runnable at a time (baton passing) is a faithful stand-in for interleavings at effect points; data races are the -race supplement's job"},
		components:  compR,
	},
	"C17": {
		parts:  []part{{"runtime", layerr.C17, 12, 12}, {"compiled", layerc.C17, 3, 6}},
		replay: layerr.Replay, level: "exploration",
		rule:        "cases = loop kind (For/While/Loop) x quiet body (Continue/Normal, optionally behind an inner loop) x n in an ascending ladder; stack depth (runtime.Callers) sampled at effect points; oracle: max depth at 10n <= max depth at n + 8 frames, and delivered values equal the reference. Every case is non-trivial (>= 100 iterations); distinct = (loop shape, n).",
		assumptions: []string{"runtime.Callers depth is a faithful measure of stack use per frame kind"},
		components:  compR,
	},
	"C18": {
		parts:  []part{{"runtime", layerr.C18, 32, 192}, {"compiled", layerc.C18, 16, 128}},
		replay: layerr.Replay, level: "fault_enumeration",
		rule:        "for each sampled (terms, consumer ops, thread interleaving) with J generator-side effects in the fault-free run, J further runs arm a panic with a unique value at effect j (every j, capped at 120 quick / 400 thorough per run). Oracle (self-relative): identical history up to effect j, the consumer call that was executing ends in a panic carrying exactly the armed value, no later event of that iterator, all other iterators' projections unchanged; secondary: the reference coroutine's history under the same fault is identical. Non-trivial = the run yields at least once; distinct = digest of (scenario, j).",
		assumptions: []string{"effects (vrt.E) mark every statement position a panic can originate from in the workload"},
		components:  compR,
	},
}
