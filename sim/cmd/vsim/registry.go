package main

import (
	"verif/sim/core"
	"verif/sim/ev"
	"verif/sim/layerr"
)

type check struct {
	fn          func(*core.Job)
	replay      func(id, path string) int
	post        func(*ev.Report)
	level       string
	quick       int // batches
	thorough    int
	maxWorkers  int
	rule        string
	assumptions []string
	components  map[string]string
}

var compR = map[string]string{
	"github.com/goghcrow/go-co/seq":            "real code, linked from /repo's working tree",
	"consumer / thread scheduler / fault plan": "simulator (sim/sched, sim/layerr)",
	"reference interpreter + coroutine":        "model (sim/layerr evalRef on sim/refco)",
	"effects inside thunks/conds/posts":        "workload code calling sim/vrt",
}

var registry = map[string]check{
	"C08": {
		fn: layerr.C08, replay: layerr.Replay, level: "exploration", quick: 32, thorough: 320,
		rule: "cases = seeded combinator terms (swarm over constructor subsets, thunks with stateful effects/conditions) x a full-drain consumer history with Current/Send/Result/quiesce steps, compared event by event with the reference interpreter run as a coroutine; plus Combine associativity/unit laws as metamorphic runs of the real code. Non-trivial = the term yields at least once and the history has >= 2 generator-side effects; distinct = digest of (term text, op list).",
		assumptions: []string{"the reference interpreter (structured loops with break/continue/return, ~70 lines) and refco are correct",
			"a deterministic full-drain history contains every consumer truncation as a prefix"},
		components: compR,
	},
}
