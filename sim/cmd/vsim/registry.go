package main

import (
	"encoding/json"
	"os"

	"verif/sim/core"
	"verif/sim/ev"
	"verif/sim/layerc"
	"verif/sim/layerd"
	"verif/sim/layerr"
)

// part is one layer's share of a check: fn runs `quick`/`thorough` batches of it.
type part struct {
	name     string
	fn       func(*core.Job)
	quick    int
	thorough int
}

func (p part) n(tier string) int {
	if tier == "thorough" {
		return p.thorough
	}
	return p.quick
}

type check struct {
	parts       []part
	replay      func(id, path string) int
	post        func(*ev.Report)
	level       string
	maxWorkers  int
	env         []string // environment the check's processes need (set by re-executing vsim)
	rule        string
	assumptions []string
	components  map[string]string
}

var compR = map[string]string{
	"github.com/goghcrow/go-co/seq":            "real code, linked from /repo's working tree",
	"consumer / thread scheduler / fault plan": "simulator (sim/sched, sim/layerr)",
	"reference interpreter + coroutine":        "model (sim/layerr evalRef on sim/refco)",
	"effects inside thunks/conds/posts":        "workload code calling sim/vrt",
}

func mergeComp(ms ...map[string]string) map[string]string {
	out := map[string]string{}
	for _, m := range ms {
		for k, v := range m {
			out[k] = v
		}
	}
	return out
}

// replayAny dispatches on the layer recorded in the replay document.
func replayAny(id, path string) int {
	data, err := os.ReadFile(path)
	if err != nil {
		ev.Infra("%v", err)
	}
	var doc struct{ Layer string }
	json.Unmarshal(data, &doc)
	switch doc.Layer {
	case "crash":
		return replayCrash(id, path)
	case "R-race":
		return layerr.ReplayRace(path)
	case "C":
		return layerc.Replay(id, path)
	case "D":
		return layerd.Replay(id, path)
	}
	return layerr.Replay(id, path)
}

var compC = map[string]string{
	"github.com/goghcrow/go-co/rewriter (Compile; CompileStages hook for the unoptimised stage)": "real code, run in a subprocess (sim/cmd/codrv built from /repo's working tree with -tags verif, production mode: not a *.test binary)",
	"github.com/goghcrow/go-co/seq":                                    "real code, linked into every batch run binary",
	"go/packages + go list, go build, Go runtime":                      "real",
	"consumer, thread scheduler, fault plans, argument vectors":        "simulator (sim/driver, sim/sched)",
	"reference coroutine + reference rendering of the same program IR": "model (sim/refco, sim/gen renderer: differs from the source in 6 token-level places)",
	"program generator (profiles, swarm configuration)":                "workload generator (sim/gen); input sampling, not simulation (DESIGN.md 3)",
}

var compD = map[string]string{
	"github.com/goghcrow/go-co/cmd/cogen":                                    "real binary built from /repo's working tree, run as go:generate runs it (cwd = package dir, GOFILE set)",
	"github.com/goghcrow/go-co/rewriter.Compile":                             "real code via sim/cmd/codrv (production mode)",
	"file system, go list, go build/test":                                    "real (scratch tree outside /repo and /verif)",
	"crash states (partial <dst>_tmp / <dst>, torn file, stale directories)": "constructed by the simulator from the stage outputs of a clean run (DESIGN.md 2.6)",
	"reference": "clean run of the same sources in a fresh tree",
}

const ruleC = " Each batch is a package of seeded generator functions (swarm configuration per batch) compiled by the real compiler; an acceptance-gate failure (compiler panic / output does not build) on a generated program is a violation of this property. Non-trivial = the history has >= 1 delivered value and >= 2 generator-side effects (plain entries: >= 2 effects); distinct = digest of (function source text, arguments, op list, thread choices, fault index)."

var registry = map[string]check{
	"C01": {
		parts: []part{{"compiled", layerc.C01, 16, 160}, {"matrix", layerc.C01M, 4, 48}}, replay: layerc.Replay, level: "exploration", components: compC,
		rule:        "cases = (generator from the control-flow profile: blocks, if/else-if chains, expression/type/tag-less switches, three-clause/condition-only/infinite loops with yielding init/post, break/continue/return at any depth, nested generator literals) x up to 36 argument vectors x a full drain (infinite generators: 64 elements); oracle: the projection of the history onto delivered values and the position of the first false advance equals the reference coroutine's." + ruleC,
		assumptions: []string{"fault-free full-drain projection of the C02 simulation: this property has no schedule dimension of its own (DESIGN.md 4 C01)"},
	},
	"C02": {
		parts: []part{{"compiled", layerc.C02, 16, 160}, {"matrix", layerc.C02M, 4, 48}}, replay: layerc.Replay, level: "exploration", components: compC,
		rule:        "cases = (generator from the control-flow profile with effects between all statements and inside yielded expressions) x argument vectors x a consumer history: new, optional Current before the first advance, advances with 0-2 Current reads each, two advances after exhaustion, one quiesce step (Gosched/GC: nothing may be logged). Oracle: full event-history equality with the reference coroutine: no effect between inv(new) and the first advance, every effect inside the same consumer call as in the reference, nothing after exhaustion; a deterministic history contains every truncation point as a prefix." + ruleC,
		assumptions: []string{"effects (vrt.E) are the observable of 'a statement ran'"},
	},
	"C03": {
		parts: []part{{"compiled", layerc.C03, 16, 160}, {"matrix", layerc.C03M, 2, 32}}, replay: layerc.Replay, level: "exploration", components: compC,
		rule:        "cases = (generator from the scope profile: declarations and shadowing in nested blocks and for/switch/if initialisers, updates before and after yields, closures created before a yield and called after it, closures updating captured variables, names from tiny pools so shadowing is frequent) x argument vectors x drain; every effect and yield reads a drawn subset of the variables in scope; oracle: full history equality with the reference." + ruleC,
		assumptions: []string{"closures capturing a loop variable and outliving the iteration are not generated (language-version dependent, DESIGN.md 3)"},
	},
	"C04": {
		parts: []part{{"compiled", layerc.C04, 16, 160}, {"matrix", layerc.C04M, 2, 32}}, replay: layerc.Replay, level: "exploration", components: compC,
		rule:        "cases = (generator from the range profile: range over slice/array/string incl. multi-byte and invalid UTF-8/map/closed channel/int incl. <= 0/typed small integer x forms k,v := | k := | _,v := | none | k,v = x yielding and non-yielding bodies, break/continue, nesting, ranges inside closures x mutation of the ranged collection in the body: element writes, append, reslice, map delete/overwrite; range expression with an effect; array operands that are not addressable (call, composite literal, field of a call result); '=' forms onto typed variables and with a value operand indexed by the key; integer limits at the boundaries of their types; closures and nested generators capturing the variable of an integer range beyond its iteration; non-yielding loops with continue/break inside a switch) x argument vectors x drain; oracle: full history equality with the reference, which executes Go's own range. Multi-entry maps only with order-insensitive (commutative) bodies." + ruleC,
		assumptions: []string{"known finding A6 (array operand is not copied) is quarantined: no write to a ranged array when the value variable is present"},
	},
	"C05": {
		parts: []part{{"compiled", layerc.C05, 16, 160}, {"matrix", layerc.C05M, 2, 32}}, replay: layerc.Replay, level: "exploration", components: compC,
		rule:        "cases = (generator from the delegation profile: YieldFrom at any statement position incl. for init/post and switch cases, argument with an effect, delegates that are fresh / held in a variable / advanced by hand before delegation / delegated twice / nested generator literals; chain recursion to depth 200, tree recursion, mutual recursion) x argument vectors x consumer history as C02; oracle: full history equality with the reference, whose YieldFrom is by definition for-range-Yield." + ruleC,
		assumptions: []string{},
	},
	"C06": {
		parts: []part{{"compiled", layerc.C06, 16, 160}, {"matrix", layerc.C06M, 2, 32}}, replay: layerc.Replay, level: "exploration", components: compC,
		rule:        "cases = plain (non-generator) functions of a processed file consuming generators with for v := range / for v = range / pull loops, break/continue/return in the body, re-declaration of the loop variable, nested consumer loops, plus hand-written declarations that put the iterator type in results, parameters, struct fields, map values, slices, closures, type arguments, generic and method generators and mix pull and range on one iterator value; '=' loops onto index / field / pointer operands; a loop variable captured and then re-declared by a mixed ':='; a generator ranging over a package-level iterator variable that a plain file re-assigns between two pulls; x argument vectors; the observation is the two-sided history (generator-side effects count the pulls). Oracle: history equality with the reference (Go's range-over-func on refco)." + ruleC,
		assumptions: []string{},
	},
	"C07": {
		parts: []part{{"compiled", layerc.C07, 16, 160}, {"matrix", layerc.C07M, 4, 48}}, replay: layerc.Replay, level: "exploration", components: compC,
		rule:        "cases = (function from the all profile + declarations aimed at the optimiser: closures of the eta-reducible shape over reassigned function variables, method values on reassigned receivers, builtins, conversions, generic instantiations, a loop condition calling a reassigned variable, imports used only by generator code / only by bystanders / blank / renamed / dot) x argument vectors x drain, fault-free and with a panic armed at sampled effect indices. Oracle (self-relative): history(unoptimised stage) == history(optimised stage) of the SAME compiler run; the hook's optimised output is cross-checked byte for byte against production Compile on every batch; both stages must build." + ruleC,
		assumptions: []string{"the unoptimised stage is made buildable by removing only the (then unused) import of the API package"},
	},
	"C12": {
		parts: []part{{"compiled", layerc.C12, 16, 128}}, replay: layerc.Replay, level: "exploration", components: compC,
		rule:        "cases = a supported program with ONE unsupported construct (goto, labelled break/continue, select, defer, fallthrough out of a yielding case, range over func / pointer-to-array, yield in an if/else-if/switch initialiser also of chains with a yielding branch and nested in native ranges, go Yield, Yield as a value, wrong result signature, the statements above inside plain loops and inside ranges that stay native, index-only ranges over a nil pointer to an array, unlabelled break/continue in native ranges that do not yield) spliced in at a drawn statement position of a generator body; one case in four is a negative control (the construct inside an immediately called plain closure, where it must be accepted). Each program is its own package. Oracle: compilation fails with a diagnostic, OR the output builds and its histories equal the reference's (schedules as C02); programs without source-level meaning (go Yield, wrong signature) must be rejected; controls must be accepted and equal. The fault space is syntactic (injected into the workload), said plainly. Every case is non-trivial; distinct = digest of (construct, control flag, program text).",
		assumptions: []string{"the listed constructs are the property's list; a function value of Yield is not on it and is not generated"},
	},
	"C13": {
		parts: []part{{"compiled", layerc.C13, 16, 160}}, replay: layerc.Replay, level: "exploration", components: compC,
		rule:        "cases = bystander code co-located with generators: generated plain functions with closures (capture by reference, updates through closures) and hand-written declarations: package-level function variable, constants, variable initialisers, init(), methods, closures of the shape func(p){return f(p)} with f a reassigned function variable / method value on a reassigned or nil receiver / value receiver / builtin / conversion / generic instantiation; op histories (create closure, reassign, call) are encoded in the functions and steered by the arguments. Oracle: history equality between the package built from the source and from the generated files." + ruleC,
		assumptions: []string{},
	},
	"C15": {
		parts: []part{{"disk", layerd.C15, 16, 48}}, replay: layerd.Replay, level: "fault_enumeration", components: compD,
		rule:        "cases = a source set S (generated, range-heavy so iterator temporaries are numbered) x tool-run histories: 3 fresh processes; same destination again; unrelated API-using files in the same package sorting before and after S's files; S in a sub-package among other packages; destination holding outputs of other sources; restart after a run killed at EVERY file-write point of both stages (thorough; a seeded subset of 6 in quick), with and without a torn next file; stale temporary directory of a run over other sources with the same file names; WithLoadTest option drawn per case; unrelated test files (in-package and external) next to S with test packages loaded; the file with the optimiser's side-condition shapes is the first file of S. Oracle: every generated file of S is byte-identical to the clean run's, no <dst>_tmp is left, no generated helper identifier is defined twice in a file. Every case is non-trivial; distinct = (source digest, configuration).",
		assumptions: []string{"crash states are constructed from the stage outputs of a clean run in the order the tool writes files; the tool has no storage seam (DESIGN.md 2.6)"},
	},
	"C16": {
		parts: []part{{"disk", layerd.C16, 48, 192}}, replay: layerd.Replay, level: "fault_enumeration", components: compD,
		rule:        "cases = generated package layouts (several *_co.go files whose helpers and types live in a plain sibling file, so the optimise stage reloads a partial package; *_co_test.go; co-named files importing but not using / not importing the API; API-using file without the suffix; sub-package) x variant (clean / stale sibling <dir>_tmp of a killed run / stale outputs of an older source version / a first run that the tool rejects half-way, after which the offending file is removed and a processed co file renamed); the layout also holds a side-effect import, //go:embed and //go:noinline directives (one separated from its declaration, one right behind a generator in a file with a generator literal), a forwarding closure over a re-assigned receiver, and optionally a second package whose co file declares what the first one calls (generated before AND after that package); the //go:generate directive ($GOFILE) stands in a co file, a plain file, a co test file or doc.go. History: snapshot, cogen, snapshot, go build, go build -tags co, go test, cogen, snapshot. Oracle: created paths are exactly the _co-stripped names of API-using co files, each starts with the '!co' constraint and the generated-code header, nothing else created/modified/left (no <dir>_tmp), builds and tests pass, second run byte-identical.",
		assumptions: []string{"the tool is run the way go:generate runs it (GOFILE set, cwd = package directory)"},
	},
	"C08": {
		parts:  []part{{"runtime", layerr.C08, 32, 320}},
		replay: replayAny, level: "exploration",
		rule: "cases = seeded combinator terms (swarm over constructor subsets, thunks with stateful effects/conditions) x a full-drain consumer history with Current/Send/Result/quiesce steps, compared event by event with the reference interpreter run as a coroutine; plus Combine associativity/unit laws as metamorphic runs of the real code. Non-trivial = the term yields at least once and the history has >= 2 generator-side effects; distinct = digest of (term text, op list).",
		assumptions: []string{"the reference interpreter (structured loops with break/continue/return, ~70 lines) and refco are correct",
			"a deterministic full-drain history contains every consumer truncation as a prefix"},
		components: compR,
	},
	"C09": {
		parts:  []part{{"runtime", layerr.C09, 32, 256}},
		replay: replayAny, level: "exploration",
		rule:        "cases = (generator from the canonical family: n yields with/without result, echo generators; or a random term) x a seeded operation history over {MoveNext, Current, Send(unique v), Result} biased to the protocol boundaries, compared event by event with the sequential reference model (refco state machine: unstarted/suspended/done). Result is compared only once the model is done (its value is masked before). Non-trivial = >= 3 ops and >= 1 successful advance; distinct = digest of (term, ops).",
		assumptions: []string{"refco implements the documented protocol (auto-start on Send, zero Current before start/after exhaustion)"},
		components:  compR,
	},
	"C10": {
		parts:  []part{{"runtime", layerr.C10, 16, 64}},
		replay: layerr.ReplayC10, level: "exploration",
		rule:        "cases = (iterator kind: string/int/typed integers int8..uint64, uint, uintptr and a named type at the boundaries of their types/slice/slice of any/map/map of any/chan) x input x step script (Current read once or twice after each advance, then mutator/producer steps: element writes ahead/behind the cursor, append, reslice, map overwrite/delete, channel send/close). Strings: all strings up to length 3 (quick) / 4 (thorough) over a 24-symbol alphabet (ASCII, first and last rune of every encoded length, validly encoded U+FFFD, invalid bytes, truncated sequences, a surrogate half, overlong and out-of-range encodings, NUL) are enumerated, plus random longer strings and raw bytes. Oracle: the native range statement over the same value run as a coroutine under the same script; multi-entry maps by the spec-derived invariant (each present key exactly once with its current value, deleted-before-reached never), which is self-checked against native range on every case. Non-trivial = history of >= 4 events; distinct = digest of the case.",
		assumptions: []string{"Go's range statement is the specification", "strings and ints have no second actor: that part is seeded/enumerated inputs, not interleavings (DESIGN.md 4 C10)"},
		components:  compR,
	},
	"C14": {
		parts:  []part{{"runtime", layerr.C14, 32, 256}, {"compiled", layerc.C14, 16, 128}, {"race-supplement", layerr.C14Race, 4, 16}},
		replay: replayAny, level: "exploration",
		rule:        "cases = k<=6 iterators over <=3 term descriptions (iterators may be started from ONE shared Seq value) owned by m<=4 consumer threads; the seeded scheduler picks the running thread at every op boundary and at every effect point inside a step. Oracle (self-relative): each iterator's projection of the interleaved history equals the history of the same iterator consumed alone by the same ops; secondary: the interleaved history equals the reference's under the same choices. Compiled level: the same on generated programs (instances of several generator functions). Supplement (runtime monitoring, flagged as such): the same terms — stateless Seq VALUES shared by all iterators, and Delay-rooted stateful ones — consumed on truly parallel goroutines in a binary built with -race; oracle = race detector silent and every sequence equal to its solo sequence. Non-trivial = >= 2 iterators, >= 2 thread switches, >= 2 effects; distinct = digest of (terms, ownership, ops, choices).",
		assumptions: []string{"one goroutine runnable at a time (baton passing) is a faithful stand-in for interleavings at effect points; data races are the -race supplement's job"},
		components:  mergeComp(compR, compC),
	},
	"C17": {
		parts:  []part{{"runtime", layerr.C17, 18, 18}, {"compiled", layerc.C17, 3, 6}},
		replay: replayAny, level: "exploration",
		rule:        "cases = loop kind (For/While/Loop) x quiet body (Continue/Normal, optionally behind an inner loop) x n in an ascending ladder; stack depth (runtime.Callers) sampled at effect points; oracle: max depth at 10n <= max depth at n + 8 frames, and delivered values equal the reference. Every case is non-trivial (>= 100 iterations); distinct = (loop shape, n).",
		assumptions: []string{"runtime.Callers depth is a faithful measure of stack use per frame kind"},
		components:  compR,
	},
	"C18": {
		// panicnil=1: a panic whose value is nil stays nil (the default of main modules that
		// declare go <= 1.20); it changes nothing else
		env:    []string{"GODEBUG=panicnil=1"},
		parts:  []part{{"runtime", layerr.C18, 32, 192}, {"compiled", layerc.C18, 16, 128}, {"matrix", layerc.C18M, 2, 32}},
		replay: replayAny, level: "fault_enumeration",
		rule:        "for each sampled (terms, consumer ops, thread interleaving) with J generator-side effects in the fault-free run, J further runs arm a panic with a unique value at effect j (every j, capped at 120 quick / 400 thorough per run); every fourth injected panic carries the NIL value (the check's processes run with GODEBUG=panicnil=1, the default of main modules declaring go <= 1.20). Oracle (self-relative): identical history up to effect j, the consumer call that was executing ends in a panic carrying exactly the armed value, no later event of that iterator, all other iterators' projections unchanged; secondary: the reference coroutine's history under the same fault is identical. Non-trivial = the run yields at least once; distinct = digest of (scenario, j).",
		assumptions: []string{"effects (vrt.E) mark every statement position a panic can originate from in the workload"},
		components:  compR,
	},
}
