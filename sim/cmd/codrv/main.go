//go:build verif

// codrv is the compile driver: a plain main (NOT named *.test, so the compiler runs in
// production mode: unique-name counter and comment attachment on) built from /repo with
// -tags verif.
//
//	codrv compile <src> <dst> [loadtest]   production rewriter.Compile
//	codrv stages  <src> <dst> [loadtest]   hook: keeps <dst>_tmp (the unoptimised stage)
//	codrv gogen   <dir>                    rewriter.GoGen (what cmd/cogen calls)
//
// exit 0 ok; exit 3 + "COMPILE-PANIC: ..." when the compiler panicked (diagnostic or crash).
package main

import (
	"fmt"
	"io"
	"log"
	"os"
	"runtime/debug"
	"strings"

	"github.com/goghcrow/go-co/rewriter"
	"github.com/goghcrow/go-loader"
)

func main() {
	if len(os.Args) < 3 {
		fmt.Fprintln(os.Stderr, "usage: codrv compile|stages|gogen ...")
		os.Exit(2)
	}
	if os.Getenv("CODRV_VERBOSE") == "" {
		log.SetOutput(io.Discard)
	}
	defer func() {
		if p := recover(); p != nil {
			fmt.Printf("COMPILE-PANIC: %v\n", p)
			if os.Getenv("CODRV_STACK") != "" {
				os.Stdout.Write(debug.Stack())
			}
			os.Exit(3)
		}
	}()
	var opts []loader.Option
	if len(os.Args) > 4 && os.Args[4] == "loadtest" && os.Args[1] != "multi" && os.Args[1] != "twice" {
		opts = append(opts, loader.WithLoadTest())
	}
	switch os.Args[1] {
	case "compile":
		rewriter.Compile(os.Args[2], os.Args[3], opts...)
	case "stages":
		rewriter.CompileStages(os.Args[2], os.Args[3], opts...)
	case "gogen":
		rewriter.GoGen(os.Args[2])
	case "twice":
		// codrv twice <other> <otherDst> <src> <dst>: two compilations in ONE process (a build
		// driver for several trees); the second must not depend on the first having happened
		rewriter.Compile(os.Args[2], os.Args[3])
		rewriter.Compile(os.Args[4], os.Args[5])
	case "multi":
		// codrv multi <srcRoot> <dstRoot> pkg...: one Compile per package directory, each
		// with its own verdict line (used where most programs are expected to be rejected)
		for _, pkg := range os.Args[4:] {
			func() {
				defer func() {
					if p := recover(); p != nil {
						msg := fmt.Sprint(p)
						if i := strings.IndexByte(msg, '\n'); i >= 0 {
							msg = msg[:i]
						}
						fmt.Printf("PKG %s PANIC %s\n", pkg, msg)
					}
				}()
				rewriter.Compile(os.Args[2]+"/"+pkg, os.Args[3]+"/"+pkg)
				fmt.Printf("PKG %s OK\n", pkg)
			}()
		}
	default:
		fmt.Fprintln(os.Stderr, "bad mode")
		os.Exit(2)
	}
}
