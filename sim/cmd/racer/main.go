// racer is the -race supplement of C14: built with `go build -race`, it consumes iterators on
// parallel goroutines. usage: racer <seed> <first> <count>   (exit 66: the race detector fired)
package main

import (
	"encoding/json"
	"fmt"
	"os"
	"strconv"

	"verif/sim/layerr"
)

func main() {
	seed, _ := strconv.ParseUint(os.Args[1], 10, 64)
	first, _ := strconv.Atoi(os.Args[2])
	count, _ := strconv.Atoi(os.Args[3])
	res := map[string]any{"cases": 0, "shared": 0}
	cases, shared := 0, 0
	for i := first; i < first+count; i++ {
		sc := layerr.GenRaceScenario(seed, i)
		cases++
		if sc.Shared {
			shared++
		}
		if msg := layerr.RunRace(sc); msg != "" {
			res["mismatch"] = msg
			res["case"] = i
			res["term"] = sc.Term.String()
			break
		}
	}
	res["cases"], res["shared"] = cases, shared
	b, _ := json.Marshal(res)
	fmt.Println(string(b))
}
