// gendump prints the source of the generated batch programs of a check (debugging aid):
//
//	gendump <prop> <profile> <batch> [seed] [substring]
//
// With a substring only the functions whose source contains it are printed.
package main

import (
	"fmt"
	"os"
	"strconv"
	"strings"

	"verif/sim/gen"
	"verif/sim/prng"
)

func main() {
	prop, profile := os.Args[1], os.Args[2]
	bn, _ := strconv.Atoi(os.Args[3])
	seed := uint64(1)
	if len(os.Args) > 4 {
		s, _ := strconv.Atoi(os.Args[4])
		seed = uint64(s)
	}
	sub := ""
	if len(os.Args) > 5 {
		sub = os.Args[5]
	}
	cfg := gen.Swarm(prng.Derive(seed, prop, bn, "cfg"), profile)
	p := gen.GenProg(prng.Derive(seed, prop, bn, "prog"), cfg, "p")
	for _, f := range p.AllFuncs() {
		src := p.RenderFunc(f, gen.Mode{})
		if sub == "" || strings.Contains(src, sub) {
			fmt.Println(src)
		}
	}
}
