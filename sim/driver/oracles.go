package driver

import (
	"fmt"

	"verif/sim/hist"
	"verif/sim/prng"
	"verif/sim/vrt"
)

func (rn *runner) drainScenario(e vrt.Entry, args []int, vi int) (*Scenario, bool) {
	sp := rn.spec
	if e.New == nil {
		return &Scenario{Iters: []IterSpec{{e.Name, args}}, Threads: [][]Op{{{K: OCall, H: 0}}}, PanicAt: -1}, true
	}
	n, fuel := rn.pilot(e.Name, args)
	if fuel {
		rn.count("discarded_fuel_watchdog", 1)
		return nil, false
	}
	return &Scenario{Iters: []IterSpec{{e.Name, args}}, PanicAt: -1,
		Threads: [][]Op{drain(prng.Derive(sp.Seed, sp.Prop, sp.Batch, e.Name, vi), 0, n)}}, true
}

// optUnoptFunc (C07): the optimised build against the unoptimised stage of the SAME
// compiler run, on identical schedules — fault-free and with a panic armed at sampled
// effect indices. The reference is consulted only to say which side is wrong.
func (rn *runner) optUnoptFunc(e vrt.Entry) {
	sp := rn.spec
	r := prng.Derive(sp.Seed, sp.Prop, sp.Batch, e.Name, "args")
	for vi, args := range argVectors(r, e, sp.ArgVecs) {
		sc, ok := rn.drainScenario(e, args, vi)
		if !ok {
			continue
		}
		class, exp, obs, at, skip := rn.compare("optunopt", "unopt", "opt", sc)
		rn.res.Scenarios++
		if skip {
			rn.count("discarded_fuel_watchdog", 1)
			continue
		}
		if class != "" {
			sc = rn.shrinkOps("optunopt", "unopt", "opt", sc, class)
			class, exp, obs, at, _ = rn.compare("optunopt", "unopt", "opt", sc)
			rn.mismatch(e.Name, "optunopt", "unopt", "opt", sc, exp, obs, at, class)
			// which side deviates from the source?
			if c2, _, _, _, _ := rn.compare("refeq", "ref", "opt", sc); c2 == "" {
				rn.count("optunopt_mismatch_unopt_side_wrong", 1)
			} else {
				rn.count("optunopt_mismatch_opt_side_wrong", 1)
			}
			return
		}
		if yields(exp) >= 1 && effects(exp) >= 2 || e.New == nil && effects(exp) >= 2 {
			rn.nontrivial(e.Name, sc)
		}
		if len(rn.res.Samples) < sp.Samples && effects(exp) >= 2 {
			rn.res.Samples = append(rn.res.Samples, map[string]any{"func": e.Name, "args": args, "ops": fmt.Sprint(sc.Threads[0]), "history_of_both_stages": exp.Strings()})
		}
		J := effects(exp)
		nf := sp.MaxFault
		if nf > J {
			nf = J
		}
		fr := prng.Derive(sp.Seed, sp.Prop, sp.Batch, e.Name, vi, "faults")
		for _, j := range fr.Perm(J)[:nf] {
			fs := cloneSc(sc)
			fs.PanicAt = j
			class, exp, obs, at, skip := rn.compare("optunopt", "unopt", "opt", fs)
			rn.res.Scenarios++
			rn.count("panics_armed", 1)
			if skip {
				continue
			}
			if class != "" {
				rn.mismatch(e.Name, "optunopt", "unopt", "opt", fs, exp, obs, at, class)
				return
			}
		}
	}
}

func projectHandle(h hist.H, handle int) hist.H {
	var out hist.H
	for _, e := range h {
		if e.H == handle {
			e.Th, e.H = 0, 0
			out = append(out, e)
		}
	}
	return out
}

func soloOf(sc *Scenario, h int) *Scenario {
	s := &Scenario{Iters: []IterSpec{sc.Iters[h]}, Threads: [][]Op{nil}, PanicAt: -1}
	for _, ops := range sc.Threads {
		for _, op := range ops {
			if op.H == h && op.K != OQuiesce {
				op.H = 0
				s.Threads[0] = append(s.Threads[0], op)
			}
		}
	}
	return s
}

// multi builds k iterators (instances of e with different arguments, plus instances of other
// generators of the batch) owned by m threads with randomly merged op lists.
func (rn *runner) multi(e vrt.Entry, r *prng.R, maxIters, maxThreads int) *Scenario {
	sc := &Scenario{PanicAt: -1, UseSched: true}
	k := 2 + r.Intn(maxIters-1)
	m := 1 + r.Intn(maxThreads)
	if m > k {
		m = k
	}
	var others []vrt.Entry
	for _, o := range rn.impls["opt"] {
		if o.New != nil && o.Name != e.Name {
			others = append(others, o)
		}
	}
	// deterministic order
	for i := 1; i < len(others); i++ {
		for j := i; j > 0 && others[j].Name < others[j-1].Name; j-- {
			others[j], others[j-1] = others[j-1], others[j]
		}
	}
	per := make([][]Op, k)
	for h := 0; h < k; h++ {
		ent := e
		if h > 0 && len(others) > 0 && r.Chance(1, 3) {
			ent = others[r.Intn(len(others))]
		}
		args := make([]int, len(ent.Args))
		for i := range args {
			args[i] = ent.Args[i][r.Intn(len(ent.Args[i]))]
		}
		sc.Iters = append(sc.Iters, IterSpec{ent.Name, args})
		n, _ := rn.pilot(ent.Name, args)
		if n > 10 {
			n = 10
		}
		per[h] = drain(r, h, n)
	}
	sc.Threads = make([][]Op, m)
	idx := make([]int, k)
	for {
		var live []int
		for h := 0; h < k; h++ {
			if idx[h] < len(per[h]) {
				live = append(live, h)
			}
		}
		if len(live) == 0 {
			break
		}
		h := live[r.Intn(len(live))]
		owner := h % m
		sc.Threads[owner] = append(sc.Threads[owner], per[h][idx[h]])
		idx[h]++
	}
	return sc
}

// soloFunc (C14): interleaved consumption on several threads, scheduler decisions at every
// op boundary and effect point. Self-relative oracle: per-iterator projection == solo run.
func (rn *runner) soloFunc(e vrt.Entry) {
	sp := rn.spec
	if e.New == nil {
		// a plain entry: consumers that interleave iterators THEMSELVES (sub-iterators handed
		// out by one generator, consumed in a drawn order); reference vs generated code
		rn.spec.Oracle = "refeq"
		rn.refeqFunc(e)
		rn.spec.Oracle = sp.Oracle
		return
	}
	for vi := 0; vi < sp.ArgVecs; vi++ {
		r := prng.Derive(sp.Seed, sp.Prop, sp.Batch, e.Name, vi)
		sc := rn.multi(e, r, 4, 3)
		pilot := Play(rn.impls["opt"], sc, PlayOpt{Fuel: Fuel, Rng: prng.Derive(sp.Seed, sp.Prop, sp.Batch, e.Name, vi, "sched")})
		rn.res.Scenarios++
		if pilot.FuelOut {
			rn.count("discarded_fuel_watchdog", 1)
			continue
		}
		sc.Choices = pilot.Choices
		inter := Play(rn.impls["opt"], sc, PlayOpt{Fuel: Fuel})
		rn.count("thread_switches", pilot.Switches)
		rn.count("sched_points", pilot.Points)
		rn.res.Sets["thread_choice_sequences"] = append(rn.res.Sets["thread_choice_sequences"], prng.Derive(0, fmt.Sprint(pilot.Choices)).Seed())
		bad := false
		for h := range sc.Iters {
			solo := Play(rn.impls["opt"], soloOf(sc, h), PlayOpt{Fuel: Fuel})
			got := projectHandle(inter.Hist, h)
			want := projectHandle(solo.Hist, 0)
			if at := hist.FirstDiff(want, got); at >= 0 {
				rn.mismatch(e.Name, "solo", "opt-alone", "opt-interleaved", sc, want, got, at, fmt.Sprintf("solo(h%d): %s", h, classOf(want, got, at)))
				bad = true
				break
			}
		}
		if bad {
			return
		}
		ref := Play(rn.impls["ref"], sc, PlayOpt{Fuel: Fuel})
		if at := hist.FirstDiff(ref.Hist, inter.Hist); at >= 0 && !ref.FuelOut {
			rn.count("interleaved_differs_from_reference", 1)
			rn.mismatch(e.Name, "refeq-interleaved", "ref", "opt", sc, ref.Hist, inter.Hist, at, "refeq-interleaved(ref vs opt): "+classOf(ref.Hist, inter.Hist, at))
			return
		}
		if len(sc.Iters) >= 2 && pilot.Switches >= 2 && effects(inter.Hist) >= 2 {
			rn.nontrivial(e.Name, sc)
		}
		if len(rn.res.Samples) < sp.Samples {
			rn.res.Samples = append(rn.res.Samples, map[string]any{"iters": sc.Iters, "threads": fmt.Sprint(sc.Threads), "choices": sc.Choices, "history": inter.Hist.Strings()})
		}
	}
}

// panicFunc (C18): every effect index of every sampled run gets its own run with a panic
// armed there.
func (rn *runner) panicFunc(e vrt.Entry) {
	sp := rn.spec
	r := prng.Derive(sp.Seed, sp.Prop, sp.Batch, e.Name, "args")
	for vi, args := range argVectors(r, e, sp.ArgVecs) {
		var sc *Scenario
		if e.New != nil && vi%2 == 1 {
			sc = rn.multi(e, prng.Derive(sp.Seed, sp.Prop, sp.Batch, e.Name, vi, "multi"), 3, 2)
			pilot := Play(rn.impls["opt"], sc, PlayOpt{Fuel: Fuel, Rng: prng.Derive(sp.Seed, sp.Prop, sp.Batch, e.Name, vi, "sched")})
			sc.Choices = pilot.Choices
			rn.count("multi_iterator_runs", 1)
		} else {
			var ok bool
			if sc, ok = rn.drainScenario(e, args, vi); !ok {
				continue
			}
		}
		free := Play(rn.impls["opt"], sc, PlayOpt{Fuel: Fuel})
		if free.FuelOut {
			rn.count("discarded_fuel_watchdog", 1)
			continue
		}
		J := free.Effects
		if J > sp.MaxFault {
			J = sp.MaxFault
			rn.count("runs_capped", 1)
		} else {
			rn.count("runs_fully_enumerated", 1)
		}
		for j := 0; j < J; j++ {
			fs := cloneSc(sc)
			fs.PanicAt = j
			rn.res.Scenarios++
			rn.count("panics_armed", 1)
			if class, exp, obs, at := rn.panicCheck(free.Hist, fs, j); class != "" {
				rn.mismatch(e.Name, "panic", "opt-fault-free", "opt-faulted", fs, exp, obs, at, class)
				return
			}
			rn.count("panics_fired", 1)
			if yields(free.Hist) >= 1 {
				rn.nontrivial(e.Name, fs)
			}
		}
		if len(rn.res.Samples) < sp.Samples && J > 2 {
			fs := cloneSc(sc)
			fs.PanicAt = J / 2
			run := Play(rn.impls["opt"], fs, PlayOpt{Fuel: Fuel})
			rn.res.Samples = append(rn.res.Samples, map[string]any{"iters": sc.Iters, "threads": fmt.Sprint(sc.Threads), "panic_at_effect": J / 2, "history": run.Hist.Strings()})
		}
	}
}

func (rn *runner) panicCheck(free hist.H, fs *Scenario, j int) (string, hist.H, hist.H, int) {
	idx, n := -1, 0
	for i, e := range free {
		if e.K == hist.Eff {
			if n == j {
				idx = i
				break
			}
			n++
		}
	}
	if idx < 0 {
		return "", nil, nil, -1
	}
	faulted := Play(rn.impls["opt"], fs, PlayOpt{Fuel: Fuel}).Hist
	eff := free[idx]
	pre := faulted
	if len(pre) > idx+1 {
		pre = pre[:idx+1]
	}
	if at := hist.FirstDiff(free[:idx+1], pre); at >= 0 {
		return "panic-prefix: " + classOf(free[:idx+1], pre, at), free[:idx+1], pre, at
	}
	if eff.H >= 0 {
		openOp := ""
		for i := idx; i >= 0; i-- {
			if e := free[i]; e.K == hist.Inv && e.H == eff.H {
				openOp = e.Op
				break
			}
		}
		exp := projectHandle(free[:idx+1], eff.H)
		exp = append(exp, hist.Event{K: hist.Pan, Op: openOp, S: vrt.Injected{Eff: j}.String(), OK: -1})
		got := projectHandle(faulted, eff.H)
		if at := hist.FirstDiff(exp, got); at >= 0 {
			return "panic-origin: " + classOf(exp, got, at), exp, got, at
		}
	}
	for h := range fs.Iters {
		if h == eff.H {
			continue
		}
		a, b := projectHandle(free, h), projectHandle(faulted, h)
		if at := hist.FirstDiff(a, b); at >= 0 {
			return fmt.Sprintf("panic-isolation(h%d): %s", h, classOf(a, b, at)), a, b, at
		}
	}
	ref := Play(rn.impls["ref"], fs, PlayOpt{Fuel: Fuel}).Hist
	if at := hist.FirstDiff(ref, faulted); at >= 0 {
		return "refeq-under-panic(ref vs opt): " + classOf(ref, faulted, at), ref, faulted, at
	}
	return "", nil, nil, -1
}

const depthSlack = 8

// depthFunc (C17): entries whose first parameter is the trip count / delegation depth.
// Args[0] lists ascending sizes; stack depth is sampled at effect points.
func (rn *runner) depthFunc(e vrt.Entry) {
	if e.New == nil || len(e.Args) == 0 {
		return
	}
	for _, k2 := range e.Args[len(e.Args)-1] {
		rn.depthLadder(e, k2)
	}
}

func (rn *runner) depthLadder(e vrt.Entry, k2 int) {
	sizes := e.Args[0]
	depths := make([]int, len(sizes))
	for i, n := range sizes {
		args := make([]int, len(e.Args))
		args[0] = n
		for k := 1; k < len(args); k++ {
			args[k] = k2
			if k2 < 0 {
				args[k] = n // the period of the yields is the trip count: ONE quiet stretch of n-1 iterations
			}
		}
		sc := &Scenario{Iters: []IterSpec{{e.Name, args}}, Threads: [][]Op{{{K: ONew, H: 0}}}, PanicAt: -1}
		for k := 0; k < 6; k++ {
			sc.Threads[0] = append(sc.Threads[0], Op{K: OMove, H: 0}, Op{K: OCur, H: 0})
		}
		each := n / 8
		if each < 1 {
			each = 1
		}
		run := Play(rn.impls["opt"], sc, PlayOpt{DepthOn: true, DepthEach: each})
		depths[i] = run.MaxDepth
		rn.res.Scenarios++
		rn.count("iterations_simulated", n)
		mk := func(n, d int) hist.H {
			return hist.H{{K: hist.Mut, H: -1, Op: "max-stack-depth-frames", V: []int64{int64(n), int64(d)}, OK: -1}}
		}
		linear := len(e.Name) > 0 && e.Name[0] == 'R' // delegation depth entries: linear growth allowed
		if i > 0 && !linear && depths[i] > depths[0]+depthSlack {
			rn.mismatch(e.Name, "depth", "opt", "opt", sc, mk(sizes[0], depths[0]), mk(n, depths[i]), 0,
				"depth: stack depth grows with the number of iterations between yields")
			return
		}
		if linear && i >= 2 {
			// at most linear: the increment per doubling must not itself keep growing
			d1 := depths[i-1] - depths[i-2]
			d2 := depths[i] - depths[i-1]
			s1 := sizes[i-1] - sizes[i-2]
			s2 := sizes[i] - sizes[i-1]
			if s1 > 0 && s2 > 0 && d2*s1 > (d1*s2)+(depthSlack*s1) {
				rn.mismatch(e.Name, "depth", "opt", "opt", sc, mk(sizes[i-1], depths[i-1]), mk(n, depths[i]), 0,
					"depth: stack depth grows faster than linearly with delegation depth")
				return
			}
		}
		// the delivered values must agree with the reference
		ref := Play(rn.impls["ref"], sc, PlayOpt{})
		a, b := valueProjection(ref.Hist), valueProjection(run.Hist)
		if at := hist.FirstDiff(a, b); at >= 0 {
			rn.mismatch(e.Name, "depth-values", "ref", "opt", sc, a, b, at, "depth-values(ref vs opt): "+classOf(a, b, at))
			return
		}
		rn.nontrivial(e.Name, sc)
	}
	if len(rn.res.Samples) < rn.spec.Samples+4 {
		rn.res.Samples = append(rn.res.Samples, map[string]any{"func": e.Name, "sizes": sizes, "max_depth_frames": depths})
	}
}

// replaySolo re-evaluates the C14 oracle on a stored scenario (recorded thread choices).
func (rn *runner) replaySolo(e vrt.Entry) {
	sc := rn.spec.Replay
	inter := Play(rn.impls["opt"], sc, PlayOpt{Fuel: Fuel})
	rn.res.Scenarios++
	for h := range sc.Iters {
		solo := Play(rn.impls["opt"], soloOf(sc, h), PlayOpt{Fuel: Fuel})
		got := projectHandle(inter.Hist, h)
		want := projectHandle(solo.Hist, 0)
		if at := hist.FirstDiff(want, got); at >= 0 {
			rn.mismatch(e.Name, "solo", "opt-alone", "opt-interleaved", sc, want, got, at, fmt.Sprintf("solo(h%d): %s", h, classOf(want, got, at)))
			return
		}
	}
	ref := Play(rn.impls["ref"], sc, PlayOpt{Fuel: Fuel})
	if at := hist.FirstDiff(ref.Hist, inter.Hist); at >= 0 && !ref.FuelOut {
		rn.mismatch(e.Name, "refeq-interleaved", "ref", "opt", sc, ref.Hist, inter.Hist, at, "refeq-interleaved(ref vs opt): "+classOf(ref.Hist, inter.Hist, at))
	}
}
