package driver

import "verif/sim/vrt"

func (rn *runner) optUnoptFunc(e vrt.Entry) {}
func (rn *runner) soloFunc(e vrt.Entry)     {}
func (rn *runner) panicFunc(e vrt.Entry)    {}
func (rn *runner) depthFunc(e vrt.Entry)    {}
