// Package driver is the generic scenario player linked into every batch run binary: it
// plays (arguments, consumer schedule, thread schedule, fault plan) on the reference, the
// optimised and the unoptimised build of each generated function and compares histories.
package driver

import (
	"encoding/json"
	"fmt"
	"os"
	"reflect"
	"runtime"
	"sort"
	"strconv"
	"sync"
	"time"

	"verif/sim/hist"
	"verif/sim/prng"
	"verif/sim/refco"
	"verif/sim/sched"
	"verif/sim/vrt"
)

type OpK int

const (
	OMove OpK = iota
	OCur
	OQuiesce
	OCall // plain entry: run to completion
	ONew  // call the generator function (must not run any of its body)
)

var opName = [...]string{"MoveNext", "Current", "quiesce", "Call", "new"}

type Op struct {
	K OpK
	H int
}

type IterSpec struct {
	Func string
	Args []int
}

// Scenario: which iterators exist and what each consumer thread does with them.
type Scenario struct {
	Iters    []IterSpec
	Threads  [][]Op
	UseSched bool  `json:",omitempty"`
	Choices  []int `json:",omitempty"`
	PanicAt  int
}

type Run struct {
	Hist     hist.H
	Effects  int
	FuelOut  bool
	Choices  []int
	Points   int
	Switches int
	MaxDepth int
}

type PlayOpt struct {
	Fuel      int
	Rng       *prng.R
	DepthOn   bool
	DepthEach int
}

const Fuel = 20000

type Impl map[string]vrt.Entry

func index(es []vrt.Entry) Impl {
	m := Impl{}
	for _, e := range es {
		m[e.Name] = e
	}
	return m
}

// Liveness watchdog of the run binary. The reference completes every play within its
// effect budget; generated code that spins without reaching an effect point (or without
// ever returning from an advance) would keep the process busy for ever. A play that is
// still running after HangLimit of wall clock ends the process with exit code 4, the name
// of the function and of the implementation under play, and all goroutine stacks. (Wall
// clock only decides WHEN the process gives up, never a verdict that depends on speed: a
// play that terminates takes milliseconds.)
var live struct {
	mu    sync.Mutex
	fn    string
	impl  string
	since time.Time
	on    bool
}

var implNames = map[uintptr]string{}

func hangLimit() time.Duration {
	if v, err := strconv.Atoi(os.Getenv("VSIM_HANG_SECONDS")); err == nil && v > 0 {
		return time.Duration(v) * time.Second
	}
	return 120 * time.Second
}

func watchdog() {
	limit := hangLimit()
	for {
		time.Sleep(500 * time.Millisecond)
		live.mu.Lock()
		stuck := live.on && time.Since(live.since) > limit
		fn, impl := live.fn, live.impl
		live.mu.Unlock()
		if stuck {
			buf := make([]byte, 1<<20)
			buf = buf[:runtime.Stack(buf, true)]
			fmt.Fprintf(os.Stderr, "\nVSIM-HANG func=%s impl=%s limit=%v\n%s\n", fn, impl, limit, buf)
			os.Exit(4)
		}
	}
}

func setFunc(name string) {
	live.mu.Lock()
	live.fn = name
	live.mu.Unlock()
	fmt.Fprintf(os.Stderr, "VSIM-FUNC %s\n", name)
}

// Play runs a scenario on one implementation.
func Play(impl Impl, sc *Scenario, o PlayOpt) (res Run) {
	live.mu.Lock()
	live.impl, live.since, live.on = implNames[reflect.ValueOf(impl).Pointer()], time.Now(), true
	live.mu.Unlock()
	defer func() {
		live.mu.Lock()
		live.on = false
		live.mu.Unlock()
	}()
	ctx := vrt.NewCtx()
	ctx.PanicAt = sc.PanicAt
	ctx.Fuel = o.Fuel
	ctx.DepthOn = o.DepthOn
	ctx.DepthEach = o.DepthEach
	vrt.C = ctx
	defer func() {
		vrt.C = nil
		refco.KillAll()
	}()
	its := make([]vrt.Iter, len(sc.Iters))
	dead := make([]bool, len(sc.Iters))
	fuelOut := false
	var sim *sched.Sim
	if sc.UseSched {
		if o.Rng != nil {
			sim = sched.New(o.Rng)
		} else {
			sim = sched.NewReplay(sc.Choices)
		}
		ctx.Point = sim.Point
	}
	guard := func(th int, op Op, body func(ret *hist.Event)) {
		ctx.Th, ctx.H = th, op.H
		ctx.Hist = append(ctx.Hist, hist.Event{K: hist.Inv, Th: th, H: op.H, Op: opName[op.K], OK: -1})
		defer func() {
			ctx.H = -1
			if p := recover(); p != nil {
				if _, ok := p.(vrt.OutOfFuel); ok {
					fuelOut = true
					return
				}
				dead[op.H] = true
				ctx.Th = th
				ctx.Hist = append(ctx.Hist, hist.Event{K: hist.Pan, Th: th, H: op.H, Op: opName[op.K], S: fmt.Sprint(p), OK: -1})
			}
		}()
		ret := hist.Event{K: hist.Ret, Th: th, H: op.H, Op: opName[op.K], OK: -1}
		body(&ret)
		ctx.Th, ctx.H = th, op.H
		ctx.Hist = append(ctx.Hist, ret)
	}
	doOp := func(th int, op Op) {
		if fuelOut {
			return
		}
		if op.K == OQuiesce {
			ctx.Th, ctx.H = th, -1
			before := len(ctx.Hist)
			for i := 0; i < 3; i++ {
				runtime.Gosched()
			}
			if before%8 == 0 {
				runtime.GC()
			}
			ctx.Hist = append(ctx.Hist, hist.Event{K: hist.Mut, Th: th, H: -1, Op: "quiesce", V: []int64{int64(len(ctx.Hist) - before)}, OK: -1})
			return
		}
		if dead[op.H] {
			return
		}
		spec := sc.Iters[op.H]
		e := impl[spec.Func]
		switch op.K {
		case OCall:
			guard(th, op, func(ret *hist.Event) { ret.V = []int64{int64(e.Call(spec.Args))} })
		case ONew:
			guard(th, op, func(ret *hist.Event) { its[op.H] = e.New(spec.Args) })
		case OMove:
			if its[op.H] == nil {
				return
			}
			guard(th, op, func(ret *hist.Event) {
				if its[op.H].MoveNext() {
					ret.OK = 1
				} else {
					ret.OK = 0
				}
			})
		case OCur:
			if its[op.H] == nil {
				return
			}
			guard(th, op, func(ret *hist.Event) {
				switch x := its[op.H].Current().(type) {
				case int:
					ret.V = []int64{int64(x)}
				default:
					ret.S = fmt.Sprintf("%#v", x)
				}
			})
		}
	}
	if sim == nil {
		for th, ops := range sc.Threads {
			for _, op := range ops {
				doOp(th, op)
			}
		}
	} else {
		for th, ops := range sc.Threads {
			th, ops := th, ops
			sim.Spawn(func() {
				for _, op := range ops {
					doOp(th, op)
					ctx.Th, ctx.H = th, -1
					sim.Point()
				}
			})
		}
		sim.Run()
		res.Choices, res.Points, res.Switches = sim.Choices, sim.Points, sim.Switch
	}
	res.Hist = ctx.Hist
	res.Effects = ctx.EffCount
	res.FuelOut = fuelOut
	res.MaxDepth = ctx.MaxDepth
	return
}

// ---------------------------------------------------------------------------------------

type Spec struct {
	Prop     string
	Oracle   string // refeq | values | optunopt | solo | panic | depth
	Seed     uint64
	Batch    int
	ArgVecs  int
	MaxFault int
	Only     string    `json:",omitempty"`
	Skip     []string  `json:",omitempty"` // functions left out (they brought an earlier run of this binary down)
	Replay   *Scenario `json:",omitempty"`
	Variants []string  `json:",omitempty"` // replay the scenario once per entry-name prefix (shrinker)
	Digest   map[string]uint64
	NoUnopt  bool
	Samples  int
}

type Mismatch struct {
	Func     string
	Class    string
	Oracle   string
	Sc       *Scenario
	Expected []string
	Observed []string
	DiffAt   int
	ExpImpl  string
	ObsImpl  string
}

type Result struct {
	Funcs      int
	Scenarios  int
	Mismatches []Mismatch
	Counters   map[string]int
	Nontrivial []uint64
	Sets       map[string][]uint64
	Samples    []any
	Skipped    map[string]string // function -> reason (fuel)
}

type runner struct {
	spec  Spec
	impls map[string]Impl
	res   *Result
}

func classOf(exp, obs hist.H, i int) string {
	kn := [...]string{"inv", "ret", "eff", "panic", "mut"}
	ce, co := "<end>", "<end>"
	if i < len(exp) {
		ce = exp[i].Op + "/" + kn[exp[i].K]
	}
	if i < len(obs) {
		co = obs[i].Op + "/" + kn[obs[i].K]
	}
	return "expected " + ce + " observed " + co
}

func yields(h hist.H) int {
	n := 0
	for _, e := range h {
		if e.K == hist.Ret && e.Op == "MoveNext" && e.OK == 1 {
			n++
		}
	}
	return n
}

func effects(h hist.H) int {
	n := 0
	for _, e := range h {
		if e.K == hist.Eff {
			n++
		}
	}
	return n
}

// valueProjection keeps what C01 speaks about: delivered values and where iteration ends.
func valueProjection(h hist.H) hist.H {
	return h.Project(func(e hist.Event) bool {
		return (e.K == hist.Ret || e.K == hist.Pan) && (e.Op == "MoveNext" || e.Op == "Current" || e.Op == "Call")
	})
}

// argVectors enumerates the argument space when small, samples it otherwise.
func argVectors(r *prng.R, e vrt.Entry, n int) [][]int {
	total := 1
	for _, a := range e.Args {
		total *= len(a)
	}
	var out [][]int
	if total <= n {
		idx := make([]int, len(e.Args))
		for {
			v := make([]int, len(e.Args))
			for i := range v {
				v[i] = e.Args[i][idx[i]]
			}
			out = append(out, v)
			k := 0
			for k < len(idx) {
				idx[k]++
				if idx[k] < len(e.Args[k]) {
					break
				}
				idx[k] = 0
				k++
			}
			if k == len(idx) {
				break
			}
		}
		return out
	}
	seen := map[string]bool{}
	for tries := 0; len(out) < n && tries < 4*n; tries++ {
		v := make([]int, len(e.Args))
		for i := range v {
			v[i] = e.Args[i][r.Intn(len(e.Args[i]))]
		}
		k := fmt.Sprint(v)
		if !seen[k] {
			seen[k] = true
			out = append(out, v)
		}
	}
	return out
}

const capYields = 64

// drain builds the consumer history for one iterator: advance until false (or the cap),
// two more advances after exhaustion, Current reads, one quiesce.
func drain(r *prng.R, h, n int) []Op {
	if n > capYields {
		n = capYields
	}
	ops := []Op{{K: ONew, H: h}}
	if r.Chance(1, 4) {
		ops = append(ops, Op{K: OCur, H: h}) // Current before the first advance
	}
	q := r.Intn(n + 3)
	for i := 0; i < n+2; i++ {
		if i == q {
			ops = append(ops, Op{K: OQuiesce, H: h})
		}
		ops = append(ops, Op{K: OMove, H: h})
		for c := r.Intn(3); c > 0; c-- {
			ops = append(ops, Op{K: OCur, H: h})
		}
	}
	return ops
}

func (rn *runner) pilot(f string, args []int) (n int, fuel bool) {
	sc := &Scenario{Iters: []IterSpec{{f, args}}, Threads: [][]Op{{{K: ONew, H: 0}}}, PanicAt: -1}
	for i := 0; i < capYields+1; i++ {
		sc.Threads[0] = append(sc.Threads[0], Op{K: OMove, H: 0})
	}
	run := Play(rn.impls["ref"], sc, PlayOpt{Fuel: Fuel})
	return yields(run.Hist), run.FuelOut
}

func (rn *runner) mismatch(f, oracle, expImpl, obsImpl string, sc *Scenario, exp, obs hist.H, at int, class string) {
	rn.res.Mismatches = append(rn.res.Mismatches, Mismatch{Func: f, Class: class, Oracle: oracle, Sc: sc,
		Expected: exp.Strings(), Observed: obs.Strings(), DiffAt: at, ExpImpl: expImpl, ObsImpl: obsImpl})
}

// compare plays sc on two implementations; returns "" when they agree.
func (rn *runner) compare(oracle, a, b string, sc *Scenario) (class string, exp, obs hist.H, at int, skip bool) {
	ra := Play(rn.impls[a], sc, PlayOpt{Fuel: Fuel})
	rb := Play(rn.impls[b], sc, PlayOpt{Fuel: Fuel})
	if ra.FuelOut && rb.FuelOut {
		return "", nil, nil, -1, true
	}
	exp, obs = ra.Hist, rb.Hist
	if oracle == "values" {
		exp, obs = valueProjection(exp), valueProjection(obs)
	}
	at = hist.FirstDiff(exp, obs)
	if at < 0 {
		return "", ra.Hist, rb.Hist, -1, false
	}
	return oracle + "(" + a + " vs " + b + "): " + classOf(exp, obs, at), exp, obs, at, false
}

// shrinkOps drops consumer ops while the same class persists (no recompilation needed).
func (rn *runner) shrinkOps(oracle, a, b string, sc *Scenario, class string) *Scenario {
	cur := sc
	for improved := true; improved; {
		improved = false
		for th := range cur.Threads {
			for i := len(cur.Threads[th]) - 1; i >= 0; i-- {
				d := cloneSc(cur)
				d.Threads[th] = append(d.Threads[th][:i:i], d.Threads[th][i+1:]...)
				if c, _, _, _, skip := rn.compare(oracle, a, b, d); !skip && c == class {
					cur = d
					improved = true
					break
				}
			}
		}
	}
	return cur
}

func cloneSc(sc *Scenario) *Scenario {
	b, _ := json.Marshal(sc)
	var d Scenario
	json.Unmarshal(b, &d)
	return &d
}

func (rn *runner) count(k string, n int) { rn.res.Counters[k] += n }

func (rn *runner) nontrivial(f string, sc *Scenario) {
	rn.res.Nontrivial = append(rn.res.Nontrivial, prng.Derive(rn.spec.Digest[f], fmt.Sprint(sc.Iters, sc.Threads, sc.Choices, sc.PanicAt)).Seed())
}

// refeqFunc: C01..C06/C12/C13 style — reference vs optimised build over argument vectors.
func (rn *runner) refeqFunc(e vrt.Entry) {
	sp := rn.spec
	r := prng.Derive(sp.Seed, sp.Prop, sp.Batch, e.Name, "args")
	for vi, args := range argVectors(r, e, sp.ArgVecs) {
		var sc *Scenario
		if e.New == nil {
			sc = &Scenario{Iters: []IterSpec{{e.Name, args}}, Threads: [][]Op{{{K: OCall, H: 0}}}, PanicAt: -1}
		} else {
			n, fuel := rn.pilot(e.Name, args)
			if fuel {
				rn.count("discarded_fuel_watchdog", 1)
				continue
			}
			if n > capYields {
				rn.count("infinite_generators_truncated", 1)
			}
			sc = &Scenario{Iters: []IterSpec{{e.Name, args}}, PanicAt: -1,
				Threads: [][]Op{drain(prng.Derive(sp.Seed, sp.Prop, sp.Batch, e.Name, vi), 0, n)}}
		}
		oracle := sp.Oracle
		class, exp, obs, at, skip := rn.compare(oracle, "ref", "opt", sc)
		rn.res.Scenarios++
		if skip {
			rn.count("discarded_fuel_watchdog", 1)
			continue
		}
		rn.count("consumer_steps", len(sc.Threads[0]))
		if class != "" {
			sc = rn.shrinkOps(oracle, "ref", "opt", sc, class)
			class, exp, obs, at, _ = rn.compare(oracle, "ref", "opt", sc)
			rn.mismatch(e.Name, oracle, "ref", "opt", sc, exp, obs, at, class)
			return // one finding per function is enough; the orchestrator minimises the program
		}
		if yields(exp) >= 1 && effects(exp) >= 2 || e.New == nil && effects(exp) >= 2 {
			rn.nontrivial(e.Name, sc)
		}
		rn.count("yields_delivered", yields(exp))
		rn.count("effects_observed", effects(exp))
		if len(rn.res.Samples) < sp.Samples && yields(exp) >= 2 {
			rn.res.Samples = append(rn.res.Samples, map[string]any{"func": e.Name, "args": args, "ops": fmt.Sprint(sc.Threads[0]), "history": exp.Strings()})
		}
	}
}

// Main is called by the generated main package.
func Main(ref, opt, unopt []vrt.Entry) {
	if len(os.Args) < 2 {
		fmt.Fprintln(os.Stderr, "usage: run <spec.json>")
		os.Exit(2)
	}
	b, err := os.ReadFile(os.Args[1])
	if err != nil {
		fmt.Fprintln(os.Stderr, err)
		os.Exit(2)
	}
	var sp Spec
	if err := json.Unmarshal(b, &sp); err != nil {
		fmt.Fprintln(os.Stderr, err)
		os.Exit(2)
	}
	rn := &runner{spec: sp, impls: map[string]Impl{"ref": index(ref), "opt": index(opt), "unopt": index(unopt)},
		res: &Result{Counters: map[string]int{}, Sets: map[string][]uint64{}, Skipped: map[string]string{}}}
	for n, im := range rn.impls {
		implNames[reflect.ValueOf(im).Pointer()] = n
	}
	go watchdog()
	if len(sp.Variants) > 0 {
		// shrinker: the same scenario on every variant of the program
		base := sp.Replay
		for _, pre := range sp.Variants {
			sc := cloneSc(base)
			for i := range sc.Iters {
				sc.Iters[i].Func = pre + sc.Iters[i].Func
			}
			rn.spec.Replay = sc
			e, ok := rn.impls["opt"][pre+sp.Only]
			if !ok {
				continue
			}
			setFunc(pre + sp.Only)
			before := len(rn.res.Mismatches)
			func() {
				defer func() {
					if p := recover(); p != nil {
						rn.res.Skipped[pre] = fmt.Sprint(p)
					}
				}()
				rn.replay(e)
			}()
			for i := before; i < len(rn.res.Mismatches); i++ {
				rn.res.Mismatches[i].Func = pre + sp.Only
			}
		}
		out, _ := json.Marshal(rn.res)
		os.Stdout.Write(out)
		return
	}
	names := make([]string, 0, len(opt))
	for _, e := range opt {
		names = append(names, e.Name)
	}
	sort.Strings(names)
	for _, name := range names {
		if sp.Only != "" && sp.Only != name {
			continue
		}
		skip := false
		for _, sk := range sp.Skip {
			skip = skip || sk == name
		}
		if skip {
			continue
		}
		setFunc(name)
		e := rn.impls["opt"][name]
		rn.res.Funcs++
		if sp.Replay != nil {
			rn.replay(e)
			continue
		}
		switch sp.Oracle {
		case "refeq", "values":
			rn.refeqFunc(e)
		case "optunopt":
			rn.optUnoptFunc(e)
		case "solo":
			rn.soloFunc(e)
		case "panic":
			rn.panicFunc(e)
		case "depth":
			rn.depthFunc(e)
		default:
			fmt.Fprintln(os.Stderr, "unknown oracle", sp.Oracle)
			os.Exit(2)
		}
	}
	out, _ := json.Marshal(rn.res)
	os.Stdout.Write(out)
}

// replay plays the stored scenario with the stored oracle and reports what it sees.
func (rn *runner) replay(e vrt.Entry) {
	sp := rn.spec
	a, b := "ref", "opt"
	switch sp.Oracle {
	case "optunopt":
		a, b = "unopt", "opt"
	case "solo", "refeq-interleaved":
		rn.replaySolo(e)
		return
	case "panic":
		free := cloneSc(sp.Replay)
		free.PanicAt = -1
		fr := Play(rn.impls["opt"], free, PlayOpt{Fuel: Fuel})
		rn.res.Scenarios++
		if class, exp, obs, at := rn.panicCheck(fr.Hist, sp.Replay, sp.Replay.PanicAt); class != "" {
			rn.mismatch(e.Name, "panic", "opt-fault-free", "opt-faulted", sp.Replay, exp, obs, at, class)
		}
		return
	case "depth", "depth-values":
		rn.depthFunc(e)
		return
	}
	class, exp, obs, at, _ := rn.compare(sp.Oracle, a, b, sp.Replay)
	rn.res.Scenarios++
	if class != "" {
		rn.mismatch(e.Name, sp.Oracle, a, b, sp.Replay, exp, obs, at, class)
	}
}
