// Package ev writes evidence files, replay files and the VIOLATION / KNOWN-FINDING lines.
package ev

import (
	"encoding/json"
	"fmt"
	"os"
	"path/filepath"
	"sort"
	"strings"
	"time"
)

// Root of /verif (the checks run with cwd=/verif; VERIF_ROOT overrides for snapshots).
func Root() string {
	if r := os.Getenv("VERIF_ROOT"); r != "" {
		return r
	}
	return "/verif"
}

type Evidence struct {
	PropertyID  string         `json:"property_id"`
	Tier        string         `json:"tier"`
	Seed        int64          `json:"seed"`
	Level       string         `json:"level"`
	Coverage    map[string]any `json:"coverage"`
	Assumptions []string       `json:"assumptions"`
	WallS       float64        `json:"wall_s"`
	Violations  int            `json:"violations"`
}

// Report accumulates what a check did; all counters are measured.
type Report struct {
	Prop        string
	Tier        string
	Seed        int64
	Level       string
	Rule        string
	Start       time.Time
	Evals       int
	Distinct    map[uint64]struct{} // digests of distinct non-trivial cases
	Samples     []any
	Counters    map[string]int // fault kinds fired, reach probes, ...
	Sets        map[string]map[uint64]struct{} // named sets of digests, reported as distinct_<name>
	Extra       map[string]any
	Assumptions []string
	Components  map[string]string
	Violations  []Violation
	Known       []string // KNOWN-FINDING lines
	Notes       []string
}

type Violation struct {
	Prop   string
	Class  string
	Replay string
}

func NewReport(prop, tier string, seed int64, level string) *Report {
	return &Report{Prop: prop, Tier: tier, Seed: seed, Level: level, Start: time.Now(),
		Distinct: map[uint64]struct{}{}, Counters: map[string]int{}, Sets: map[string]map[uint64]struct{}{}, Extra: map[string]any{},
		Components: map[string]string{}}
}

func (r *Report) Count(k string, n int) { r.Counters[k] += n }
func (r *Report) Nontrivial(d uint64)   { r.Distinct[d] = struct{}{} }

// SetAdd records a digest in a named set (e.g. distinct interleavings, distinct shapes).
func (r *Report) SetAdd(name string, d uint64) {
	if r.Sets[name] == nil {
		r.Sets[name] = map[uint64]struct{}{}
	}
	r.Sets[name][d] = struct{}{}
}
func (r *Report) Sample(s any, max int) {
	if len(r.Samples) < max {
		r.Samples = append(r.Samples, s)
	}
}

// Merge folds a worker's partial report into r.
func (r *Report) Merge(o *Report) {
	r.Evals += o.Evals
	for d := range o.Distinct {
		r.Distinct[d] = struct{}{}
	}
	for k, v := range o.Counters {
		r.Counters[k] += v
	}
	for name, set := range o.Sets {
		for d := range set {
			r.SetAdd(name, d)
		}
	}
	for _, s := range o.Samples {
		r.Sample(s, 6)
	}
	r.Violations = append(r.Violations, o.Violations...)
	r.Known = append(r.Known, o.Known...)
	r.Notes = append(r.Notes, o.Notes...)
	for k, v := range o.Extra {
		if _, ok := r.Extra[k]; !ok {
			r.Extra[k] = v
		}
	}
}

// WriteReplay stores a replay document and returns its path.
func WriteReplay(prop string, seed int64, n int, doc any) string {
	dir := filepath.Join(Root(), "replays")
	os.MkdirAll(dir, 0o755)
	p := filepath.Join(dir, fmt.Sprintf("%s-%d-%d.json", prop, seed, n))
	b, err := json.MarshalIndent(doc, "", " ")
	if err != nil {
		panic(err)
	}
	if err := os.WriteFile(p, b, 0o644); err != nil {
		panic(err)
	}
	return p
}

// Finish writes the evidence file, prints the verdict lines and returns the exit code.
func (r *Report) Finish() int {
	wall := time.Since(r.Start).Seconds()
	cov := map[string]any{
		"evaluations":         r.Evals,
		"distinct_nontrivial": len(r.Distinct),
		"rule":                r.Rule,
		"samples":             r.Samples,
	}
	keys := make([]string, 0, len(r.Counters))
	for k := range r.Counters {
		keys = append(keys, k)
	}
	sort.Strings(keys)
	cnt := map[string]int{}
	var unreached []string
	for _, k := range keys {
		cnt[k] = r.Counters[k]
		if r.Counters[k] == 0 {
			unreached = append(unreached, k)
		}
	}
	cov["counters"] = cnt
	for name, set := range r.Sets {
		cov["distinct_"+name] = len(set)
	}
	cov["unreached"] = unreached
	cov["components"] = r.Components
	if wall > 0 {
		cov["evaluations_per_hour"] = int(float64(r.Evals) / wall * 3600)
	}
	cov["simulated_time"] = "no clock exists in the anchored code; time is reported as scheduler points / consumer steps in counters"
	if len(r.Known) > 0 {
		cov["known_findings_reproduced"] = r.Known
	}
	if len(r.Notes) > 0 {
		cov["notes"] = r.Notes
	}
	for k, v := range r.Extra {
		cov[k] = v
	}
	if r.Samples == nil {
		cov["samples"] = []any{}
	}
	e := Evidence{PropertyID: r.Prop, Tier: r.Tier, Seed: r.Seed, Level: r.Level, Coverage: cov,
		Assumptions: r.Assumptions, WallS: wall, Violations: len(r.Violations)}
	if e.Assumptions == nil {
		e.Assumptions = []string{}
	}
	b, err := json.MarshalIndent(e, "", " ")
	if err != nil {
		panic(err)
	}
	dir := filepath.Join(Root(), "evidence")
	if r := os.Getenv("VERIF_REPO"); r != "" && r != "/repo" {
		// a run against another copy of the repository (seeded changes, scratch worktrees)
		// is not evidence about /repo: keep it apart
		dir = filepath.Join(Root(), "evidence.alt")
	}
	os.MkdirAll(dir, 0o755)
	if err := os.WriteFile(filepath.Join(dir, r.Prop+".json"), b, 0o644); err != nil {
		panic(err)
	}
	for _, k := range r.Known {
		fmt.Printf("KNOWN-FINDING: property=%s %s\n", r.Prop, k)
	}
	for _, v := range r.Violations {
		fmt.Printf("VIOLATION property=%s replay=%s\n", v.Prop, v.Replay)
		if v.Class != "" {
			fmt.Printf("  class: %s\n", strings.ReplaceAll(v.Class, "\n", " "))
		}
	}
	fmt.Printf("%s tier=%s seed=%d evaluations=%d distinct_nontrivial=%d violations=%d wall=%.1fs\n",
		r.Prop, r.Tier, r.Seed, r.Evals, len(r.Distinct), len(r.Violations), wall)
	if len(r.Violations) > 0 {
		return 1
	}
	return 0
}

// Infra reports an infrastructure failure: exit 2, never a verdict.
func Infra(format string, a ...any) {
	fmt.Fprintf(os.Stderr, "INFRASTRUCTURE-FAILURE: "+format+"\n", a...)
	os.Exit(2)
}
