// Package sched runs logical threads on goroutines with baton passing: exactly one
// goroutine is runnable at any instant and the next thread to run is chosen, at every
// Point, by the seeded PRNG (or by a recorded choice list on replay).
package sched

import "verif/sim/prng"

type thread struct {
	id     int
	resume chan struct{}
	done   bool
	body   func()
}

type Sim struct {
	rng     *prng.R
	replay  []int
	Choices []int // every decision taken (index among runnable threads)
	Switch  int   // decisions that moved the baton to another thread
	Points  int   // scheduling points reached ("simulated time" in steps)
	threads []*thread
	cur     *thread
	fin     chan struct{}
}

func New(rng *prng.R) *Sim { return &Sim{rng: rng, fin: make(chan struct{})} }

// NewReplay follows a recorded choice list (taken modulo the number of runnable threads;
// once exhausted, choice 0), which makes shrunk lists replayable.
func NewReplay(choices []int) *Sim {
	return &Sim{replay: append([]int{}, choices...), fin: make(chan struct{})}
}

func (s *Sim) Spawn(body func()) int {
	t := &thread{id: len(s.threads), resume: make(chan struct{}), body: body}
	s.threads = append(s.threads, t)
	return t.id
}

func (s *Sim) Cur() int { return s.cur.id }

func (s *Sim) pick() *thread {
	var run []*thread
	for _, t := range s.threads {
		if !t.done {
			run = append(run, t)
		}
	}
	if len(run) == 0 {
		return nil
	}
	var c int
	switch {
	case s.rng != nil:
		c = s.rng.Intn(len(run))
	case len(s.Choices) < len(s.replay):
		c = s.replay[len(s.Choices)] % len(run)
		if c < 0 {
			c = -c
		}
	default:
		c = 0
	}
	s.Choices = append(s.Choices, c)
	return run[c]
}

// Run starts all spawned threads and returns when every one has finished.
func (s *Sim) Run() {
	if len(s.threads) == 0 {
		return
	}
	for _, t := range s.threads {
		t := t
		go func() {
			<-t.resume
			t.body()
			t.done = true
			next := s.pick()
			if next == nil {
				close(s.fin)
				return
			}
			s.Switch++
			s.cur = next
			next.resume <- struct{}{}
		}()
	}
	first := s.pick()
	s.cur = first
	first.resume <- struct{}{}
	<-s.fin
}

// Point is a pre-emption point. It may be called by any goroutine acting for the current
// logical thread (e.g. a reference coroutine body resumed by it).
func (s *Sim) Point() {
	s.Points++
	me := s.cur
	next := s.pick()
	if next == me {
		return
	}
	s.Switch++
	s.cur = next
	next.resume <- struct{}{}
	<-me.resume
}
