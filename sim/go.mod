module verif/sim

go 1.23

require github.com/goghcrow/go-co v0.0.0

replace github.com/goghcrow/go-co => /repo
