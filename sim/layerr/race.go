package layerr

import (
	"fmt"
	"sync"

	"github.com/goghcrow/go-co/seq"

	"verif/sim/prng"
)

// RaceScenario is one parallel-consumption case of the -race supplement of C14: several
// iterators, each consumed on its OWN goroutine with real parallelism. The verdict does not
// depend on the schedule the Go runtime happens to choose: the race detector reports
// unsynchronised accesses of two goroutines to one location whenever both occur in the run,
// and the per-iterator value sequences must equal the solo sequences. This part is runtime
// monitoring (a race report is not seed-replayable); the deterministic scheduler part of
// C14 is the simulation.
type RaceScenario struct {
	Term   *Term
	Shared bool // ONE constructed Seq value started by every goroutine (else: Delay-rooted, per-run state)
	K      int  // goroutines
	N      int  // advances per iterator
}

func drainValues(it seq.Iterator[int], n int) []int {
	var out []int
	for i := 0; i < n && it.MoveNext(); i++ {
		out = append(out, it.Current())
	}
	return out
}

// RunRace plays the scenario; it returns a description of the first sequence mismatch.
func RunRace(sc *RaceScenario) string {
	var root seq.Seq[int]
	if sc.Shared {
		root = toSeq(sc.Term, &state{})
	} else {
		root = RootSeq(sc.Term)
	}
	solo := drainValues(seq.Start(root), sc.N)
	got := make([][]int, sc.K)
	var wg sync.WaitGroup
	start := make(chan struct{})
	for g := 0; g < sc.K; g++ {
		g := g
		it := seq.Start(root)
		wg.Add(1)
		go func() {
			defer wg.Done()
			<-start
			got[g] = drainValues(it, sc.N)
		}()
	}
	close(start)
	wg.Wait()
	for g := range got {
		if fmt.Sprint(got[g]) != fmt.Sprint(solo) {
			return fmt.Sprintf("iterator %d consumed in parallel delivered %v, alone %v", g, got[g], solo)
		}
	}
	return ""
}

// GenRaceScenario draws a case: stateless shared values and stateful Delay-rooted terms.
func GenRaceScenario(seed uint64, i int) *RaceScenario {
	r := prng.Derive(seed, "C14race", i)
	sc := &RaceScenario{K: 2 + r.Intn(3), N: 20 + r.Intn(200)}
	if i%2 == 0 {
		sc.Term, sc.Shared = statelessTerm(r), true
	} else {
		// per-run state behind a Delay root: the canonical terminating / echo generators
		// (every loop iteration of them yields, so a drain of N elements always ends)
		sc.Term = family(r)
		sc.N = 12
	}
	return sc
}
