package layerr

import (
	"fmt"
	"sync"

	"github.com/goghcrow/go-co/seq"

	"verif/sim/prng"
)

// RaceScenario is one parallel-consumption case of the -race supplement of C14: several
// iterators, each consumed on its OWN goroutine with real parallelism. The verdict does not
// depend on the schedule the Go runtime happens to choose: the race detector reports
// unsynchronised accesses of two goroutines to one location whenever both occur in the run,
// and the per-iterator value sequences must equal the solo sequences. This part is runtime
// monitoring (a race report is not seed-replayable); the deterministic scheduler part of
// C14 is the simulation.
type RaceScenario struct {
	Term   *Term
	Shared bool // ONE constructed Seq value started by every goroutine (else: Delay-rooted, per-run state)
	K      int  // goroutines
	N      int  // advances per iterator
}

func drainValues(it seq.Iterator[int], n int) []int {
	var out []int
	for i := 0; i < n && it.MoveNext(); i++ {
		out = append(out, it.Current())
	}
	return out
}

// companion is a small generator over another element type (loop with post statement,
// continue, break, return): whatever the runtime keeps per PACKAGE rather than per iterator
// (memo tables, pools, counters) is shared across element types as well.
func companion[V any](vals []V) seq.Seq[V] {
	return seq.Delay(func() seq.Seq[V] {
		i := 0
		return seq.Combine(
			seq.For(func() bool { return i < len(vals) }, func() { i++ },
				seq.Delay(func() seq.Seq[V] {
					if i%4 == 3 {
						return seq.Continue[V]()
					}
					if i == len(vals)-1 {
						return seq.Bind(vals[i], func() seq.Seq[V] { return seq.Break[V]() })
					}
					return seq.Bind(vals[i], func() seq.Seq[V] { return seq.Normal[V]() })
				})),
			seq.Delay(func() seq.Seq[V] { return seq.Return[V]() }))
	})
}

func companionWant[V any](vals []V) (out []V) {
	for i, v := range vals {
		if i%4 != 3 {
			out = append(out, v)
		}
	}
	return
}

func drainAny[V any](it seq.Iterator[V]) (out []V) {
	for it.MoveNext() {
		out = append(out, it.Current())
	}
	return
}

type racePoint struct{ X, Y int }

// RunRace plays the scenario; it returns a description of the first sequence mismatch.
func RunRace(sc *RaceScenario) string {
	var root seq.Seq[int]
	if sc.Shared {
		root = toSeq(sc.Term, &state{})
	} else {
		root = RootSeq(sc.Term)
	}
	got := make([][]int, sc.K)
	var wg sync.WaitGroup
	start := make(chan struct{})
	for g := 0; g < sc.K; g++ {
		g := g
		it := seq.Start(root)
		wg.Add(1)
		go func() {
			defer wg.Done()
			<-start
			got[g] = drainValues(it, sc.N)
		}()
	}
	// iterators of two other element types next to them
	strs := make([]string, 0, sc.K+5)
	pts := make([]racePoint, 0, sc.K+5)
	for i := 0; i < sc.K+5; i++ {
		strs, pts = append(strs, fmt.Sprint("s", i)), append(pts, racePoint{i, sc.N})
	}
	var gotS []string
	var gotP []racePoint
	wg.Add(2)
	go func() {
		defer wg.Done()
		<-start
		gotS = drainAny(seq.Start(companion(strs)))
	}()
	go func() {
		defer wg.Done()
		<-start
		gotP = drainAny(seq.Start(companion(pts)))
	}()
	// the range iterators over collections of ONE type on several goroutines, each over its own
	// collection (a map, a slice, a string)
	gotM := make([]map[int]int, 3)
	wantM := make([]map[int]int, 3)
	gotSl := make([][]int, 3)
	for g := 0; g < 3; g++ {
		g := g
		wantM[g] = map[int]int{}
		for i := 0; i < 6+sc.K; i++ {
			wantM[g][g*1000+i] = g*1000 + i*7
		}
		wg.Add(1)
		go func() {
			defer wg.Done()
			<-start
			gotM[g] = map[int]int{}
			for it := seq.NewMapIter(wantM[g]); it.MoveNext(); {
				p := it.Current()
				gotM[g][p.Key] = p.Val
			}
			xs := []int{g, g + 1, g + 2, sc.N}
			for it := seq.NewSliceIter(xs); it.MoveNext(); {
				gotSl[g] = append(gotSl[g], it.Current().Val+it.Current().Key)
			}
			for it := seq.NewStringIter(fmt.Sprint("s", g, "é")); it.MoveNext(); {
				gotSl[g] = append(gotSl[g], int(it.Current().Val))
			}
		}()
	}
	close(start)
	wg.Wait()
	for g := range gotM {
		if fmt.Sprint(gotM[g]) != fmt.Sprint(wantM[g]) {
			return fmt.Sprintf("map iterator %d consumed in parallel delivered %v, its map holds %v", g, gotM[g], wantM[g])
		}
		if want := fmt.Sprint([]int{g, g + 2, g + 4, sc.N + 3, 's', '0' + g, 'é'}); fmt.Sprint(gotSl[g]) != want {
			return fmt.Sprintf("slice/string iterators %d consumed in parallel delivered %v, want %v", g, gotSl[g], want)
		}
	}
	// (the solo run comes last: nothing is warmed up on this goroutine beforehand)
	solo := drainValues(seq.Start(root), sc.N)
	for g := range got {
		if fmt.Sprint(got[g]) != fmt.Sprint(solo) {
			return fmt.Sprintf("iterator %d consumed in parallel delivered %v, alone %v", g, got[g], solo)
		}
	}
	if fmt.Sprint(gotS) != fmt.Sprint(companionWant(strs)) {
		return fmt.Sprintf("string iterator consumed in parallel delivered %v, alone %v", gotS, companionWant(strs))
	}
	if fmt.Sprint(gotP) != fmt.Sprint(companionWant(pts)) {
		return fmt.Sprintf("struct iterator consumed in parallel delivered %v, alone %v", gotP, companionWant(pts))
	}
	return ""
}

// GenRaceScenario draws a case: stateless shared values and stateful Delay-rooted terms.
func GenRaceScenario(seed uint64, i int) *RaceScenario {
	r := prng.Derive(seed, "C14race", i)
	sc := &RaceScenario{K: 2 + r.Intn(3), N: 20 + r.Intn(200)}
	if i%2 == 0 {
		sc.Term, sc.Shared = statelessTerm(r), true
	} else {
		// per-run state behind a Delay root: the canonical terminating / echo generators
		// (every loop iteration of them yields, so a drain of N elements always ends)
		sc.Term = family(r)
		sc.N = 12
	}
	return sc
}
