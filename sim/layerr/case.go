package layerr

import (
	"encoding/json"
	"fmt"
	"os"

	"verif/sim/core"
	"verif/sim/ev"
	"verif/sim/hist"
)

// Case is one fully determined simulated execution: scenario + schedule + fault plan.
// It is also the replay document (everything needed to re-run it, nothing re-derived).
type Case struct {
	Property string
	Layer    string
	Oracle   string // which comparison decides (refeq, solo, panic, law-assoc, ...)
	Seed     uint64
	Batch    int
	Index    int
	Sc       *Scenario
	UseSched bool  `json:",omitempty"`
	Choices  []int `json:",omitempty"`
	PanicAt  int
	PanicNil bool `json:",omitempty"`
	Fuel     int
	Alt      *Scenario `json:",omitempty"` // second scenario for metamorphic laws

	// filled in when a violation is reported
	Class    string   `json:",omitempty"`
	Terms    []string `json:",omitempty"`
	Expected []string `json:",omitempty"`
	Observed []string `json:",omitempty"`
	DiffAt   int      `json:",omitempty"`
}

// Verdict of evaluating a case: Class == "" means the property held on it.
type Verdict struct {
	Class    string
	Expected hist.H
	Observed hist.H
	DiffAt   int
	Skip     string // case discarded (fuel watchdog), never a verdict
}

func classOf(exp, obs hist.H, i int) string {
	ce, co := "<end>", "<end>"
	if i < len(exp) {
		ce = fmt.Sprintf("%s/%s", exp[i].Op, [...]string{"inv", "ret", "eff", "panic", "mut"}[exp[i].K])
	}
	if i < len(obs) {
		co = fmt.Sprintf("%s/%s", obs[i].Op, [...]string{"inv", "ret", "eff", "panic", "mut"}[obs[i].K])
	}
	return "expected " + ce + " observed " + co
}

func diffVerdict(oracle string, exp, obs hist.H) Verdict {
	i := hist.FirstDiff(exp, obs)
	if i < 0 {
		return Verdict{Expected: exp, Observed: obs, DiffAt: -1}
	}
	return Verdict{Class: oracle + ": " + classOf(exp, obs, i), Expected: exp, Observed: obs, DiffAt: i}
}

// evalRefEq: the real runtime must produce exactly the reference history.
func evalRefEq(c *Case) Verdict {
	o := PlayOpt{PanicAt: c.PanicAt, PanicNil: c.PanicNil, Fuel: c.Fuel, UseSched: c.UseSched, Replay: c.Choices}
	ref := Play(c.Sc, Ref, o)
	o.MaskRes = ref.ResMask
	real := Play(c.Sc, Real, o)
	if ref.FuelOut && real.FuelOut {
		return Verdict{Skip: "fuel"}
	}
	return diffVerdict("refeq", ref.Hist, real.Hist)
}

type evalFn func(*Case) Verdict

// a worker minimises and reports at most this many violations; further ones are counted
const maxViolationsPerWorker = 2

// report minimises a failing case, stores the replay file and records the violation.
func report(j *core.Job, c *Case, v Verdict, eval evalFn) {
	if len(j.Rep.Violations) >= maxViolationsPerWorker {
		j.Rep.Count("violations_not_minimised_over_cap", 1)
		return
	}
	c, v = shrink(c, v, eval)
	fill(c, v)
	n := c.Batch*100000 + c.Index
	path := ev.WriteReplay(c.Property, int64(c.Seed), n, c)
	j.Rep.Violations = append(j.Rep.Violations, ev.Violation{Prop: c.Property, Class: v.Class, Replay: path})
}

func fill(c *Case, v Verdict) {
	c.Class = v.Class
	c.Terms = nil
	for _, t := range c.Sc.Terms {
		c.Terms = append(c.Terms, t.String())
	}
	c.Expected = v.Expected.Strings()
	c.Observed = v.Observed.Strings()
	c.DiffAt = v.DiffAt
}

func clone(c *Case) *Case {
	b, _ := json.Marshal(c)
	var d Case
	if err := json.Unmarshal(b, &d); err != nil {
		panic(err)
	}
	return &d
}

// LoadCase reads a replay file.
func LoadCase(path string) (*Case, error) {
	b, err := os.ReadFile(path)
	if err != nil {
		return nil, err
	}
	var c Case
	if err := json.Unmarshal(b, &c); err != nil {
		return nil, err
	}
	return &c, nil
}

// shrink greedily minimises the case while the same violation class persists.
func shrink(c *Case, v Verdict, eval evalFn) (*Case, Verdict) {
	budget := 1500
	for improved := true; improved && budget > 0; {
		improved = false
		for _, cand := range candidates(c) {
			budget--
			if budget <= 0 {
				break
			}
			nv := eval(cand)
			if nv.Class == v.Class && nv.Skip == "" {
				c, v = cand, nv
				improved = true
				break
			}
		}
	}
	return c, v
}

// candidates lists one-step reductions: fewer ops, fewer threads, smaller terms.
func candidates(c *Case) []*Case {
	var out []*Case
	// drop one op (from the end first)
	for th := range c.Sc.Threads {
		for i := len(c.Sc.Threads[th]) - 1; i >= 0; i-- {
			d := clone(c)
			d.Sc.Threads[th] = append(d.Sc.Threads[th][:i:i], d.Sc.Threads[th][i+1:]...)
			out = append(out, d)
		}
	}
	// shorten the choice list
	if len(c.Choices) > 0 {
		d := clone(c)
		d.Choices = d.Choices[:len(d.Choices)/2]
		out = append(out, d)
		for i := range c.Choices {
			if c.Choices[i] != 0 {
				d := clone(c)
				d.Choices[i] = 0
				out = append(out, d)
			}
		}
	}
	// term reductions
	for ti := range c.Sc.Terms {
		n := countSites(c.Sc.Terms[ti])
		for s := 0; s < n; s++ {
			for variant := 0; variant < 5; variant++ {
				d := clone(c)
				k := 0
				if reduceAt(&d.Sc.Terms[ti], &k, s, variant) && validTerm(d.Sc.Terms[ti]) {
					out = append(out, d)
				}
			}
		}
	}
	return out
}

// validTerm keeps reductions inside the generated space: a condition-less loop body must
// be a thunk with an effect, so that the fuel watchdog bounds every run.
func validTerm(t *Term) bool {
	if t == nil {
		return true
	}
	if t.K == TLoop && (t.A == nil || t.A.K != TDelay || len(t.A.Th.Pre) == 0) {
		return false
	}
	if !validTerm(t.A) || !validTerm(t.B) {
		return false
	}
	if t.Th != nil {
		return validTerm(t.Th.Ret) && validTerm(t.Th.Else)
	}
	return true
}

func countSites(t *Term) int {
	if t == nil {
		return 0
	}
	n := 1 + countSites(t.A) + countSites(t.B)
	if t.Th != nil {
		n += countSites(t.Th.Ret) + countSites(t.Th.Else)
	}
	return n
}

// reduceAt applies reduction `variant` at pre-order site `target`.
func reduceAt(pt **Term, k *int, target, variant int) bool {
	t := *pt
	if t == nil {
		return false
	}
	if *k == target {
		*k++
		switch variant {
		case 0: // replace by Normal
			if t.K == TNormal {
				return false
			}
			*pt = &Term{K: TNormal, RecvCtr: -1}
			return true
		case 1: // replace by first child
			switch {
			case t.A != nil:
				*pt = t.A
			case t.Th != nil:
				*pt = t.Th.Ret
			default:
				return false
			}
			return true
		case 2: // replace by second child
			switch {
			case t.B != nil:
				*pt = t.B
			case t.Th != nil && t.Th.Else != nil:
				*pt = t.Th.Else
			default:
				return false
			}
			return true
		case 3: // drop the conditional / a pre statement / post
			if t.Th != nil && t.Th.If != nil {
				t.Th.If, t.Th.Else = nil, nil
				return true
			}
			if t.Th != nil && len(t.Th.Pre) > 1 {
				t.Th.Pre = t.Th.Pre[:len(t.Th.Pre)-1]
				return true
			}
			if len(t.Post) > 0 {
				t.Post = t.Post[:len(t.Post)-1]
				return true
			}
			return false
		case 4: // simplify the value expression
			if t.Val.Ctr >= 0 || t.Val.Tag != 0 {
				t.Val.Ctr, t.Val.Tag = -1, 0
				return true
			}
			return false
		}
		return false
	}
	*k++
	if reduceAt(&t.A, k, target, variant) {
		return true
	}
	if reduceAt(&t.B, k, target, variant) {
		return true
	}
	if t.Th != nil {
		if reduceAt(&t.Th.Ret, k, target, variant) {
			return true
		}
		if reduceAt(&t.Th.Else, k, target, variant) {
			return true
		}
	}
	return false
}

func evWrite(c *Case) string {
	return ev.WriteReplay(c.Property, int64(c.Seed), c.Batch*100000+c.Index, c)
}

func evViolation(c *Case, v Verdict, path string) ev.Violation {
	return ev.Violation{Prop: c.Property, Class: v.Class, Replay: path}
}
