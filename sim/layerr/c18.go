package layerr

import (
	"fmt"

	"verif/sim/core"
	"verif/sim/hist"
	"verif/sim/prng"
	"verif/sim/vrt"
)

// evalPanic: fault-free run vs the run with a panic armed at effect c.PanicAt, same
// interleaving. Self-relative (primary): identical up to the effect; the consumer call that
// was executing ends in a panic carrying exactly the armed value; nothing of that iterator
// afterwards; every other iterator unaffected. Secondary: the reference coroutine agrees.
func evalPanic(c *Case) Verdict {
	o := PlayOpt{PanicAt: -1, Fuel: c.Fuel, UseSched: c.UseSched, Replay: c.Choices}
	free := Play(c.Sc, Real, o)
	if free.FuelOut {
		return Verdict{Skip: "fuel"}
	}
	j := c.PanicAt
	idx, n := -1, 0
	for i, e := range free.Hist {
		if e.K == hist.Eff {
			if n == j {
				idx = i
				break
			}
			n++
		}
	}
	if idx < 0 {
		return Verdict{Skip: "no such effect"}
	}
	o.PanicAt, o.PanicNil = j, c.PanicNil
	faulted := Play(c.Sc, Real, o)
	if faulted.FuelOut {
		return Verdict{Skip: "fuel"}
	}
	eff := free.Hist[idx]
	// 1. identical up to and including the effect, on all threads
	pre := faulted.Hist
	if len(pre) > idx+1 {
		pre = pre[:idx+1]
	}
	if v := diffVerdict("panic-prefix", free.Hist[:idx+1], pre); v.Class != "" {
		return v
	}
	// 2. the open call of that iterator ends in the panic, then silence
	if eff.H >= 0 {
		openOp := ""
		for i := idx; i >= 0; i-- {
			if e := free.Hist[i]; e.K == hist.Inv && e.H == eff.H {
				openOp = e.Op
				break
			}
		}
		exp := ProjectHandle(free.Hist[:idx+1], eff.H)
		val := vrt.Injected{Eff: j}.String()
		if c.PanicNil {
			val = fmt.Sprint(nil)
		}
		exp = append(exp, hist.Event{K: hist.Pan, Th: 0, H: eff.H, Op: openOp, S: val, OK: -1})
		if v := diffVerdict("panic-origin", exp, ProjectHandle(faulted.Hist, eff.H)); v.Class != "" {
			return v
		}
	}
	// 3. all other iterators unaffected
	for h := range c.Sc.RootOf {
		if h == eff.H {
			continue
		}
		if v := diffVerdict(fmt.Sprintf("panic-isolation(h%d)", h), ProjectHandle(free.Hist, h), ProjectHandle(faulted.Hist, h)); v.Class != "" {
			return v
		}
	}
	// 4. secondary: the reference coroutine re-raises in the resumer at the same place
	ref := Play(c.Sc, Ref, o)
	o.MaskRes = ref.ResMask
	faulted = Play(c.Sc, Real, o)
	v := diffVerdict("refeq-under-panic", ref.Hist, faulted.Hist)
	v.Expected = ref.Hist
	return v
}

// C18 (runtime level): for every sampled run, a panic is injected at EVERY effect index.
func C18(j *core.Job) {
	perBatch, maxFaults := 60, 120
	if j.Thorough() {
		perBatch, maxFaults = 250, 400
	}
	rep := j.Rep
	for _, k := range []string{"panics_with_nil_value", "panics_armed", "panics_fired", "panic_in_cond_or_post_or_thunk", "multi_iterator_runs", "runs_fully_enumerated", "runs_capped"} {
		rep.Count(k, 0)
	}
	for _, b := range j.Batches {
		cfg := SwarmCfg(prng.Derive(j.Seed, "C18", b, "cfg"), 14, b%2 == 0)
		for i := 0; i < perBatch; i++ {
			r := prng.Derive(j.Seed, "C18", b, i)
			var sc *Scenario
			if r.Chance(1, 2) {
				t := GenTerm(r, cfg)
				n := pilotYields(t, 16)
				sc = &Scenario{Terms: []*Term{t}, RootOf: []int{0}, Threads: [][]Op{drainOps(r, 0, n, 16, hasRecv(t))}}
			} else {
				sc = multiScenario(r, cfg, 3, 2)
				rep.Count("multi_iterator_runs", 1)
			}
			pilot := Play(sc, Real, PlayOpt{PanicAt: -1, Fuel: defaultFuel, UseSched: true, Rng: prng.Derive(j.Seed, "C18sched", b, i)})
			if pilot.FuelOut {
				rep.Count("discarded_fuel_watchdog", 1)
				continue
			}
			J := pilot.Effects
			if J > maxFaults {
				J = maxFaults
				rep.Count("runs_capped", 1)
			} else {
				rep.Count("runs_fully_enumerated", 1)
			}
			for f := 0; f < J; f++ {
				c := &Case{Property: "C18", Layer: "R", Oracle: "panic", Seed: j.Seed, Batch: b, Index: i*1000 + f, Sc: sc, UseSched: true,
					Choices: pilot.Choices, PanicAt: f, Fuel: defaultFuel}
				if f%4 == 3 && nilPanicsObservable {
					// the panic value is nil (GODEBUG=panicnil=1, the default of main modules
					// that declare go <= 1.20, as go-co's own go.mod does)
					c.PanicNil = true
					rep.Count("panics_with_nil_value", 1)
				}
				v := evalPanic(c)
				rep.Evals++
				rep.Count("panics_armed", 1)
				if v.Skip != "" {
					continue
				}
				rep.Count("panics_fired", 1)
				if Yields(v.Expected) >= 1 {
					rep.Nontrivial(caseDigest(c))
				}
				if f == J/2 && i < 1 && b == j.Batches[0] {
					rep.Sample(map[string]any{"term": sc.Terms[0].String(), "threads": fmt.Sprint(sc.Threads), "panic_at_effect": f, "history": v.Expected.Strings()}, 2)
				}
				if v.Class != "" {
					report(j, c, v, evalPanic)
					break
				}
			}
		}
	}
}

// nilPanicsObservable: the process runs with GODEBUG=panicnil=1 (set by the orchestrator for
// this check), so panic(nil) reaches recover as nil instead of as a *runtime.PanicNilError.
var nilPanicsObservable = func() (yes bool) {
	defer func() { yes = recover() == nil }()
	panic(nil)
}()
