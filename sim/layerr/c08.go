package layerr

import (
	"fmt"

	"verif/sim/core"
	"verif/sim/prng"
)

const defaultFuel = 3000

// drainOps builds the canonical consumer history for one iterator: advance until false
// (or the cap), two more advances after exhaustion, Current calls sprinkled in, one
// quiesce, Result at the end. With useSend, some advances are Send(v) with unique values.
func drainOps(r *prng.R, h, yields, capYields int, useSend bool) []Op {
	n := yields
	if n > capYields {
		n = capYields
	}
	var ops []Op
	q := r.Intn(n + 3)
	for i := 0; i < n+2; i++ {
		if i == q {
			ops = append(ops, Op{K: OQuiesce, H: h})
		}
		if useSend && r.Chance(1, 2) {
			ops = append(ops, Op{K: OSend, H: h, Arg: 100 + i})
		} else {
			ops = append(ops, Op{K: OMove, H: h})
		}
		for c := r.Intn(3); c > 0; c-- {
			ops = append(ops, Op{K: OCur, H: h})
		}
		if r.Chance(1, 8) {
			ops = append(ops, Op{K: OResult, H: h})
		}
	}
	ops = append(ops, Op{K: OResult, H: h})
	return ops
}

// pilotYields measures, on the reference, how many elements the term yields (capped).
func pilotYields(t *Term, capYields int) int {
	sc := &Scenario{Terms: []*Term{t}, RootOf: []int{0}, Threads: [][]Op{nil}}
	for i := 0; i < capYields+1; i++ {
		sc.Threads[0] = append(sc.Threads[0], Op{K: OMove, H: 0})
	}
	run := Play(sc, Ref, PlayOpt{PanicAt: -1, Fuel: defaultFuel})
	return Yields(run.Hist)
}

func hasRecv(t *Term) bool {
	if t == nil {
		return false
	}
	if t.K == TBindRecv {
		return true
	}
	if hasRecv(t.A) || hasRecv(t.B) {
		return true
	}
	return t.Th != nil && (hasRecv(t.Th.Ret) || hasRecv(t.Th.Else))
}

func countTerm(cnt map[string]int, t *Term) {
	if t == nil {
		return
	}
	cnt["term_"+tkName[t.K]]++
	countTerm(cnt, t.A)
	countTerm(cnt, t.B)
	if t.Th != nil {
		if t.Th.If != nil {
			cnt["term_thunk_conditional"]++
		}
		countTerm(cnt, t.Th.Ret)
		countTerm(cnt, t.Th.Else)
	}
}

func caseDigest(c *Case) uint64 {
	s := fmt.Sprint(c.Sc.Threads, c.Sc.RootOf, c.PanicAt, c.Choices)
	for _, t := range c.Sc.Terms {
		s += t.String()
	}
	return prng.Derive(0, s).Seed()
}

// nestedLoops draws a term in which an inner loop VALUE (constructed once, with the outer
// loop) is executed again by every outer iteration, possibly while an earlier execution of
// it is still on the call stack: its iterations yield, fall through or break depending on
// stateful conditions whose counters are rewound by effect statements, so that runs of the
// same loop value end in every way (condition, break, suspension) in every order.
func nestedLoops(r *prng.R) *Term {
	tag := 0
	nt := func() int { tag++; return tag }
	cond := func(ctr int) *Cond { return &Cond{Tag: nt(), Ctr: ctr, Limit: r.Range(0, 4)} }
	rewind := func() []Stmt {
		ss := []Stmt{{Tag: nt(), Ctr: -1}}
		for i := r.Intn(3); i > 0; i-- {
			ss = append(ss, Stmt{Tag: nt(), Ctr: r.Intn(nCtr), Delta: r.Range(-4, 1)})
		}
		return ss
	}
	yield := &Term{K: TBind, RecvCtr: -1, Val: Expr{Ctr: r.Intn(nCtr), Lit: 10, Tag: nt()}, Th: &Thunk{Pre: rewind(), Ret: leaf([]TK{TNormal, TNormal, TContinue, TBreak}[r.Intn(4)])}}
	quiet := &Term{K: TDelay, RecvCtr: -1, Th: &Thunk{Pre: rewind(), If: cond(r.Intn(nCtr)), Ret: leaf(TBreak), Else: leaf([]TK{TNormal, TContinue}[r.Intn(2)])}}
	body := &Term{K: TDelay, RecvCtr: -1, Th: &Thunk{Pre: rewind(), If: cond(r.Intn(nCtr)), Ret: yield, Else: quiet}}
	kind := []TK{TFor, TFor, TWhile, TLoop}[r.Intn(4)]
	inner := &Term{K: kind, RecvCtr: -1, A: body}
	if kind != TLoop {
		inner.Cond = cond(r.Intn(nCtr))
	}
	if kind == TFor {
		inner.Post = rewind()
	}
	var obody *Term = inner
	if r.Bool() {
		obody = &Term{K: TCombine, RecvCtr: -1, A: inner, B: &Term{K: TDelay, RecvCtr: -1, Th: &Thunk{Pre: rewind(), Ret: leaf(TNormal)}}}
	}
	if r.Chance(1, 3) {
		obody = &Term{K: TCombine, RecvCtr: -1, A: obody, B: &Term{K: TBind, RecvCtr: -1, Val: Expr{Ctr: -1, Lit: 77}, Th: &Thunk{Pre: rewind(), Ret: leaf(TNormal)}}}
	}
	outer := &Term{K: TFor, RecvCtr: -1, Cond: &Cond{Tag: nt(), Ctr: r.Intn(nCtr), Limit: r.Range(2, 6)}, Post: rewind(), A: obody}
	return &Term{K: TCombine, RecvCtr: -1, A: outer, B: &Term{K: TBind, RecvCtr: -1, Val: Expr{Ctr: -1, Lit: 99}, Th: &Thunk{Pre: rewind(), Ret: leaf(TReturn)}}}
}

// C08: seeded combinator terms vs the reference interpreter, full-drain histories
// (a deterministic full history contains every truncation as a prefix; the quiesce step
// adds "nothing runs when the consumer is not calling"), plus the algebraic laws run as
// metamorphic comparisons on the real code.
func C08(j *core.Job) {
	maxSize, perBatch := 14, 400
	if j.Thorough() {
		maxSize, perBatch = 40, 1500
	}
	rep := j.Rep
	for _, k := range tkName {
		rep.Count("term_"+k, 0)
	}
	for _, b := range j.Batches {
		cfg := SwarmCfg(prng.Derive(j.Seed, "C08", b, "cfg"), maxSize, b%2 == 0)
		for i := 0; i < perBatch; i++ {
			r := prng.Derive(j.Seed, "C08", b, i)
			t := GenTerm(r, cfg)
			if i%4 == 3 {
				t = nestedLoops(r)
				rep.Count("nested_shared_loop_values", 1)
			}
			n := pilotYields(t, 48)
			sc := &Scenario{Terms: []*Term{t}, RootOf: []int{0}}
			sc.Threads = [][]Op{drainOps(r, 0, n, 48, hasRecv(t))}
			c := &Case{Property: "C08", Layer: "R", Oracle: "refeq", Seed: j.Seed, Batch: b, Index: i, Sc: sc, PanicAt: -1, Fuel: defaultFuel}
			v := evalRefEq(c)
			rep.Evals++
			if v.Skip != "" {
				rep.Count("discarded_fuel_watchdog", 1)
				continue
			}
			rep.SetAdd("term_shapes", prng.Derive(0, t.Shape()).Seed())
			countTerm(rep.Counters, t)
			rep.Count("consumer_steps", len(sc.Threads[0]))
			if n >= 1 && Effects(v.Expected) >= 2 {
				rep.Nontrivial(caseDigest(c))
			}
			if n > 48 {
				rep.Count("infinite_or_long_generators_truncated", 1)
			}
			if i < 2 && b == j.Batches[0] {
				rep.Sample(map[string]any{"term": t.String(), "ops": fmt.Sprint(sc.Threads[0]), "history": v.Expected.Strings()}, 3)
			}
			if v.Class != "" {
				report(j, c, v, evalRefEq)
				continue
			}
			if i%4 == 0 {
				lawCases(j, r, cfg, b, i)
			}
		}
	}
}

// evalLaw: two terms that the documented laws declare equivalent must have identical
// histories on the real runtime (same ops).
func evalLaw(c *Case) Verdict {
	o := PlayOpt{PanicAt: -1, Fuel: c.Fuel}
	a := Play(c.Sc, Real, o)
	b := Play(c.Alt, Real, o)
	if a.FuelOut || b.FuelOut {
		return Verdict{Skip: "fuel"}
	}
	return diffVerdict(c.Oracle, a.Hist, b.Hist)
}

func lawCases(j *core.Job, r *prng.R, cfg GenCfg, b, i int) {
	small := cfg
	small.MaxSize = 2 + cfg.MaxSize/3
	x, y, z := GenTerm(r, small), GenTerm(r, small), GenTerm(r, small)
	comb := func(a, b *Term) *Term { return &Term{K: TCombine, A: a, B: b, RecvCtr: -1} }
	norm := &Term{K: TNormal, RecvCtr: -1}
	laws := []struct {
		name string
		l, r *Term
	}{
		{"law-assoc", comb(comb(x, y), z), comb(x, comb(y, z))},
		{"law-left-unit", comb(norm, x), x},
		{"law-right-unit", comb(x, norm), x},
	}
	for li, l := range laws {
		n := pilotYields(l.l, 32)
		ops := drainOps(prng.Derive(j.Seed, "C08law", b, i, li), 0, n, 32, false)
		c := &Case{Property: "C08", Layer: "R", Oracle: l.name, Seed: j.Seed, Batch: b, Index: i*10 + li + 50000,
			Sc:  &Scenario{Terms: []*Term{l.l}, RootOf: []int{0}, Threads: [][]Op{ops}},
			Alt: &Scenario{Terms: []*Term{l.r}, RootOf: []int{0}, Threads: [][]Op{ops}}, PanicAt: -1, Fuel: defaultFuel}
		v := evalLaw(c)
		j.Rep.Evals++
		if v.Skip != "" {
			continue
		}
		j.Rep.Count(l.name, 1)
		if v.Class != "" {
			// laws are not shrunk structurally (two coupled terms); ops are
			if len(j.Rep.Violations) < maxViolationsPerWorker {
				fill(c, v)
				path := evWrite(c)
				j.Rep.Violations = append(j.Rep.Violations, evViolation(c, v, path))
			}
		}
	}
}
