package layerr

import (
	"fmt"

	"verif/sim/core"
	"verif/sim/prng"
)

func leaf(k TK) *Term { return &Term{K: k, RecvCtr: -1} }

// family returns the canonical generators of C09: n yields with/without a return value,
// with effects between them, and echo generators that yield what they were sent.
func family(r *prng.R) *Term {
	tag := 0
	nt := func() int { tag++; return tag }
	switch r.Intn(3) {
	case 0: // n plain yields, then ReturnValue or fall off the end
		n := r.Intn(5)
		var t *Term
		if r.Bool() {
			t = &Term{K: TReturnValue, RecvCtr: -1, Val: Expr{Ctr: -1, Lit: 40 + r.Intn(9)}}
		} else {
			t = leaf(TNormal)
		}
		for i := n; i >= 1; i-- {
			t = &Term{K: TBind, RecvCtr: -1, Val: Expr{Ctr: -1, Lit: i}, Th: &Thunk{Pre: []Stmt{{Tag: nt(), Ctr: -1}}, Ret: t}}
		}
		return t
	case 1: // echo forever: yields the last received value
		body := &Term{K: TBindRecv, RecvTag: nt(), RecvCtr: 0, Val: Expr{Ctr: 0, Lit: 0, Tag: nt()},
			Th: &Thunk{Pre: []Stmt{{Tag: nt(), Ctr: -1}}, Ret: leaf(TNormal)}}
		return &Term{K: TLoop, RecvCtr: -1, A: &Term{K: TDelay, RecvCtr: -1, Th: &Thunk{Pre: []Stmt{{Tag: nt(), Ctr: -1}}, Ret: body}}}
	default: // bounded echo with a result: k rounds, returns the sum counter
		k := 1 + r.Intn(4)
		body := &Term{K: TBindRecv, RecvTag: nt(), RecvCtr: 1, Val: Expr{Ctr: 1, Lit: 1},
			Th: &Thunk{Pre: []Stmt{{Tag: nt(), Ctr: 2, Delta: 1}}, Ret: leaf(TNormal)}}
		loop := &Term{K: TWhile, RecvCtr: -1, Cond: &Cond{Tag: nt(), Ctr: 3, Limit: k}, A: body}
		return &Term{K: TCombine, RecvCtr: -1, A: loop, B: &Term{K: TReturnValue, RecvCtr: -1, Val: Expr{Ctr: 1, Lit: 0, Tag: nt()}}}
	}
}

// randomOps draws an operation history biased to the protocol's boundaries.
func randomOps(r *prng.R, n int) []Op {
	var ops []Op
	w := []int{4, 3, 3, 2}
	if r.Chance(1, 4) { // bursts of one op kind
		w = []int{1 + r.Intn(6), r.Intn(6), r.Intn(6), r.Intn(4)}
	}
	for i := 0; i < n; i++ {
		k := OpK(r.Pick(w))
		op := Op{K: k, H: 0}
		if k == OSend {
			op.Arg = 1000 + i // unique, so every received value is attributable
		}
		ops = append(ops, op)
	}
	return ops
}

// C09: seeded operation histories over {MoveNext, Current, Send, Result} against the
// sequential reference model (unstarted / suspended / done).
func C09(j *core.Job) {
	maxLen, perBatch := 12, 30000
	if j.Thorough() {
		maxLen, perBatch = 40, 100000
	}
	rep := j.Rep
	for _, k := range []string{"op_MoveNext", "op_Current", "op_Send", "op_Result", "result_before_completion_masked", "ops_after_exhaustion", "send_on_unstarted"} {
		rep.Count(k, 0)
	}
	for _, b := range j.Batches {
		cfg := SwarmCfg(prng.Derive(j.Seed, "C09", b, "cfg"), 12, true)
		cfg.W[TBindRecv] += 3
		for i := 0; i < perBatch; i++ {
			r := prng.Derive(j.Seed, "C09", b, i)
			var t *Term
			if i%2 == 0 {
				t = family(r)
			} else {
				t = GenTerm(r, cfg)
			}
			ops := randomOps(r, 1+r.Intn(maxLen))
			sc := &Scenario{Terms: []*Term{t}, RootOf: []int{0}, Threads: [][]Op{ops}}
			c := &Case{Property: "C09", Layer: "R", Oracle: "refeq", Seed: j.Seed, Batch: b, Index: i, Sc: sc, PanicAt: -1, Fuel: defaultFuel}
			v := evalRefEq(c)
			rep.Evals++
			if v.Skip != "" {
				rep.Count("discarded_fuel_watchdog", 1)
				continue
			}
			// reach probes, measured on the reference history
			exhausted, started := false, false
			for _, e := range v.Expected {
				if e.K == 0 { // inv
					rep.Count("op_"+e.Op, 1)
					if exhausted {
						rep.Count("ops_after_exhaustion", 1)
					}
					if e.Op == "Send" && !started {
						rep.Count("send_on_unstarted", 1)
					}
					if e.Op == "MoveNext" || e.Op == "Send" {
						started = true
					}
				}
				if e.K == 1 && e.OK == 0 {
					exhausted = true
				}
				if e.K == 1 && e.S == "masked" {
					rep.Count("result_before_completion_masked", 1)
				}
			}
			if len(ops) >= 3 && Yields(v.Expected) >= 1 {
				rep.Nontrivial(caseDigest(c))
			}
			if i < 2 && b == j.Batches[0] {
				rep.Sample(map[string]any{"term": t.String(), "ops": fmt.Sprint(ops), "history": v.Expected.Strings()}, 3)
			}
			if v.Class != "" {
				report(j, c, v, evalRefEq)
			}
		}
	}
}
