package layerr

import (
	"fmt"
	"runtime"

	"github.com/goghcrow/go-co/seq"

	"verif/sim/hist"
	"verif/sim/prng"
	"verif/sim/refco"
	"verif/sim/sched"
	"verif/sim/vrt"
)

type OpK int

const (
	OMove OpK = iota
	OCur
	OSend
	OResult
	OQuiesce // yield the processor, run the GC: nothing may be logged by anyone
)

var opName = [...]string{"MoveNext", "Current", "Send", "Result", "quiesce"}

type Op struct {
	K   OpK
	H   int
	Arg int `json:",omitempty"`
}

func (o Op) String() string {
	if o.K == OSend {
		return fmt.Sprintf("h%d.Send(%d)", o.H, o.Arg)
	}
	return fmt.Sprintf("h%d.%s", o.H, opName[o.K])
}

// Scenario: iterators (each started from one of the root Seqs) and the op lists of the
// consumer threads that own them.
type Scenario struct {
	Terms   []*Term
	RootOf  []int  // iterator h is started from RootSeq(Terms[RootOf[h]]); equal entries share ONE Seq value
	Threads [][]Op // ops per logical thread
	// SharedValue: the Seq value of a (stateless) term is constructed ONCE, outside any
	// thunk, and handed to Start several times: the loop values inside it are shared too
	SharedValue bool `json:",omitempty"`
}

type genIface interface {
	MoveNext() bool
	Current() int
	Send(int) (int, bool)
	Result() int
}

type Impl int

const (
	Real Impl = iota
	Ref
)

// Run is the outcome of playing a scenario on one implementation.
type Run struct {
	Hist     hist.H
	Effects  int
	Fired    bool
	FuelOut  bool
	Choices  []int
	Points   int
	Switches int
	MaxDepth int
	Depths   []vrt.DepthSample
	ResMask  [][]bool // per thread, per op: Result was called before the model was done (Ref only)
}

type PlayOpt struct {
	PanicAt   int // -1: none
	PanicNil  bool
	Fuel      int
	Rng       *prng.R // thread scheduler choices (nil with Replay nil: run threads sequentially in order)
	Replay    []int
	UseSched  bool
	DepthOn   bool
	DepthEach int
	MaskRes   [][]bool // per thread, per op index: mask the value of Result (model not done yet)
}

func mkIters(sc *Scenario, impl Impl) []genIface {
	its := make([]genIface, len(sc.RootOf))
	if impl == Real {
		roots := make([]seq.Seq[int], len(sc.Terms))
		for i, t := range sc.Terms {
			if sc.SharedValue {
				roots[i] = toSeq(t, &state{})
			} else {
				roots[i] = RootSeq(t)
			}
		}
		for h, r := range sc.RootOf {
			its[h] = seq.Start(roots[r]).(seq.Generator[int])
		}
	} else {
		for h, r := range sc.RootOf {
			its[h] = RefIter(sc.Terms[r])
		}
	}
	return its
}

// Play runs the scenario on one implementation under the given fault plan and schedule.
func Play(sc *Scenario, impl Impl, o PlayOpt) (res Run) {
	ctx := vrt.NewCtx()
	ctx.PanicAt = o.PanicAt
	ctx.PanicNil = o.PanicNil
	ctx.Fuel = o.Fuel
	ctx.DepthOn = o.DepthOn
	ctx.DepthEach = o.DepthEach
	vrt.C = ctx
	defer func() {
		vrt.C = nil
		refco.KillAll()
	}()
	its := mkIters(sc, impl)
	if impl == Ref {
		res.ResMask = make([][]bool, len(sc.Threads))
		for i, ops := range sc.Threads {
			res.ResMask[i] = make([]bool, len(ops))
		}
	}
	dead := make([]bool, len(its))
	fuelOut := false
	var sim *sched.Sim
	if o.UseSched {
		if o.Rng != nil {
			sim = sched.New(o.Rng)
		} else {
			sim = sched.NewReplay(o.Replay)
		}
		ctx.Point = sim.Point
	}
	doOp := func(th, idx int, op Op) {
		if fuelOut || (op.K != OQuiesce && dead[op.H]) {
			return
		}
		ctx.Th, ctx.H = th, op.H
		if op.K == OQuiesce {
			ctx.H = -1
			before := len(ctx.Hist)
			for i := 0; i < 3; i++ {
				runtime.Gosched()
			}
			if len(ctx.Hist)%16 == 0 {
				runtime.GC()
			}
			ctx.Hist = append(ctx.Hist, hist.Event{K: hist.Mut, Th: th, H: -1, Op: "quiesce", V: []int64{int64(len(ctx.Hist) - before)}, OK: -1})
			return
		}
		inv := hist.Event{K: hist.Inv, Th: th, H: op.H, Op: opName[op.K], OK: -1}
		if op.K == OSend {
			inv.V = []int64{int64(op.Arg)}
		}
		ctx.Hist = append(ctx.Hist, inv)
		func() {
			returned := false // a panic whose value is nil is invisible to 'recover() != nil'
			defer func() {
				if p := recover(); p != nil || !returned {
					if _, ok := p.(vrt.OutOfFuel); ok {
						fuelOut = true
						return
					}
					dead[op.H] = true
					ctx.Th, ctx.H = th, op.H
					ctx.Hist = append(ctx.Hist, hist.Event{K: hist.Pan, Th: th, H: op.H, Op: opName[op.K], S: fmt.Sprint(p), OK: -1})
				}
			}()
			ret := hist.Event{K: hist.Ret, Th: th, H: op.H, Op: opName[op.K], OK: -1}
			it := its[op.H]
			switch op.K {
			case OMove:
				ret.OK = b2i(it.MoveNext())
			case OCur:
				ret.V = []int64{int64(it.Current())}
			case OSend:
				v, ok := it.Send(op.Arg)
				ret.V = []int64{int64(v)}
				ret.OK = b2i(ok)
			case OResult:
				v := it.Result()
				masked := o.MaskRes != nil && o.MaskRes[th][idx]
				if impl == Ref {
					// the property promises Result only once the generator has completed
					masked = !it.(refco.Iter[int]).Done()
					res.ResMask[th][idx] = masked
				}
				if masked {
					ret.S = "masked"
				} else {
					ret.V = []int64{int64(v)}
				}
			}
			ctx.Th, ctx.H = th, op.H
			ctx.Hist = append(ctx.Hist, ret)
			returned = true
		}()
		ctx.H = -1
	}
	if sim == nil {
		for th, ops := range sc.Threads {
			for i, op := range ops {
				doOp(th, i, op)
			}
		}
	} else {
		for th, ops := range sc.Threads {
			th, ops := th, ops
			sim.Spawn(func() {
				for i, op := range ops {
					doOp(th, i, op)
					ctx.Th, ctx.H = th, -1
					sim.Point()
				}
			})
		}
		sim.Run()
		res.Choices = sim.Choices
		res.Points = sim.Points
		res.Switches = sim.Switch
	}
	res.Hist = ctx.Hist
	res.Effects = ctx.EffCount
	res.Fired = ctx.Fired
	res.FuelOut = fuelOut
	res.MaxDepth = ctx.MaxDepth
	res.Depths = ctx.Depths
	return
}

func b2i(b bool) int8 {
	if b {
		return 1
	}
	return 0
}

// ProjectHandle keeps the events of one iterator, with the thread id normalised.
func ProjectHandle(h hist.H, handle int) hist.H {
	var out hist.H
	for _, e := range h {
		if e.H == handle {
			e.Th = 0
			out = append(out, e)
		}
	}
	return out
}

// Yields counts successful advances in a history.
func Yields(h hist.H) int {
	n := 0
	for _, e := range h {
		if e.K == hist.Ret && (e.Op == "MoveNext" || e.Op == "Send") && e.OK == 1 {
			n++
		}
	}
	return n
}

// Effects counts generator-side effects.
func Effects(h hist.H) int {
	n := 0
	for _, e := range h {
		if e.K == hist.Eff {
			n++
		}
	}
	return n
}
