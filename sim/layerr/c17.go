package layerr

import (
	"fmt"

	"verif/sim/core"
	"verif/sim/hist"
	"verif/sim/prng"
)

// depthTerm builds a loop of the given kind that runs n iterations without yielding
// (bodies ending in Continue or Normal), yields a few times near the end, and is followed
// by one more yield. quiet says which signal the non-yielding iterations end in.
func depthTerm(kind TK, n int, quiet TK, nested int) *Term {
	y := &Term{K: TBind, RecvCtr: -1, Val: Expr{Ctr: 0, Lit: 0}, Th: &Thunk{Pre: []Stmt{{Tag: 5, Ctr: -1}}, Ret: leaf(TNormal)}}
	var body *Term
	switch kind {
	case TLoop:
		// if c1++ <= n { quiet } else { break }
		body = &Term{K: TDelay, RecvCtr: -1, Th: &Thunk{Pre: []Stmt{{Tag: 1, Ctr: 0, Delta: 1}}, If: &Cond{Tag: 2, Ctr: 1, Limit: n}, Ret: leaf(quiet), Else: leaf(TBreak)}}
	default:
		// first n-3 iterations quiet, then yielding ones
		body = &Term{K: TDelay, RecvCtr: -1, Th: &Thunk{Pre: []Stmt{{Tag: 1, Ctr: 0, Delta: 1}}, If: &Cond{Tag: 2, Ctr: 1, Limit: n - 3}, Ret: leaf(quiet), Else: y}}
	}
	switch nested {
	case 1:
		// before the quiet body runs a short inner loop that iterates twice without yielding in
		// EVERY outer iteration (its counter is rewound by the thunk in front of it)
		inner := &Term{K: TWhile, RecvCtr: -1, Cond: &Cond{Tag: 9, Ctr: 3, Limit: 2}, A: leaf(TNormal)}
		rewind := &Term{K: TDelay, RecvCtr: -1, Th: &Thunk{Pre: []Stmt{{Tag: 8, Ctr: 3, Delta: -3}}, Ret: inner}}
		body = &Term{K: TCombine, RecvCtr: -1, A: rewind, B: body}
	case 2:
		// the same inner loop as ONE loop value, not behind a thunk (what the optimiser leaves of
		// an init-less inner loop at the head of a loop body): every outer iteration runs the
		// same value again; the depth is sampled inside its condition and post statement. Its
		// counter is rewound by the quiet body's thunk
		inner := &Term{K: TFor, RecvCtr: -1, Cond: &Cond{Tag: 9, Ctr: 3, Limit: 2}, Post: []Stmt{{Tag: 10, Ctr: -1}}, A: leaf(TNormal)}
		body.Th.Pre = append([]Stmt{{Tag: 8, Ctr: 3, Delta: -3}}, body.Th.Pre...)
		body = &Term{K: TCombine, RecvCtr: -1, A: inner, B: body}
	}
	loop := &Term{K: kind, RecvCtr: -1, A: body}
	if kind != TLoop {
		loop.Cond = &Cond{Tag: 3, Ctr: 2, Limit: n}
	}
	if kind == TFor {
		loop.Post = []Stmt{{Tag: 4, Ctr: -1}}
	}
	return &Term{K: TCombine, RecvCtr: -1, A: loop, B: &Term{K: TBind, RecvCtr: -1, Val: Expr{Ctr: -1, Lit: 7}, Th: &Thunk{Pre: []Stmt{{Tag: 6, Ctr: -1}}, Ret: leaf(TReturn)}}}
}

func depthRun(t *Term, n int, impl Impl) Run {
	sc := &Scenario{Terms: []*Term{t}, RootOf: []int{0}, Threads: [][]Op{nil}}
	for i := 0; i < 6; i++ {
		sc.Threads[0] = append(sc.Threads[0], Op{K: OMove, H: 0}, Op{K: OCur, H: 0})
	}
	each := n / 16
	if each < 1 {
		each = 1
	}
	return Play(sc, impl, PlayOpt{PanicAt: -1, DepthOn: true, DepthEach: each})
}

const depthSlack = 8 // frames of noise allowed between the n and the 10n run

// evalDepth: stack depth observed at effect points must not depend on the number of
// iterations executed between two yields (self-relative: n vs 10n on the same loop).
func evalDepth(c *Case) Verdict {
	small := depthRun(c.Sc.Terms[0], c.Index, Real)
	big := depthRun(c.Alt.Terms[0], 10*c.Index, Real)
	mk := func(r Run) hist.H {
		return hist.H{{K: hist.Mut, H: -1, Op: "max-stack-depth-frames", V: []int64{int64(r.MaxDepth)}, OK: -1}}
	}
	if big.MaxDepth > small.MaxDepth+depthSlack {
		return Verdict{Class: fmt.Sprintf("depth: stack depth grows with iterations between yields (%s)", c.Oracle), Expected: mk(small), Observed: mk(big), DiffAt: 0}
	}
	// the values delivered must still agree with the reference (no semantic drift)
	ref := depthRun(c.Sc.Terms[0], c.Index, Ref)
	keep := func(e hist.Event) bool { return e.K != hist.Eff }
	v := diffVerdict("depth-refeq", ref.Hist.Project(keep), small.Hist.Project(keep))
	v.Expected, v.Observed = mk(small), mk(big)
	return v
}

// C17 (runtime level): For/While/Loop with Continue/Normal bodies, n in 10^2..10^5(6).
// Sizes ascend and the first violation stops the ladder, so a defective runtime is
// reported as a measured number, never as a fatal stack overflow.
func C17(j *core.Job) {
	sizes := []int{100, 1000, 10000}
	if j.Thorough() {
		sizes = []int{100, 1000, 10000, 100000}
	}
	rep := j.Rep
	kinds := []TK{TFor, TWhile, TLoop}
	quiets := []TK{TContinue, TNormal}
	for _, b := range j.Batches {
		r := prng.Derive(j.Seed, "C17", b)
		kind := kinds[b%3]
		quiet := quiets[(b/3)%2]
		nested := (b / 6) % 3
		jitter := r.Intn(7)
	ladder:
		for _, n := range sizes {
			n += jitter
			c := &Case{Property: "C17", Layer: "R", Oracle: fmt.Sprintf("depth %s/%s nested=%d", tkName[kind], tkName[quiet], nested), Seed: j.Seed, Batch: b, Index: n,
				Sc:  &Scenario{Terms: []*Term{depthTerm(kind, n, quiet, nested)}, RootOf: []int{0}},
				Alt: &Scenario{Terms: []*Term{depthTerm(kind, 10*n, quiet, nested)}, RootOf: []int{0}}, PanicAt: -1}
			v := evalDepth(c)
			rep.Evals++
			rep.Count("iterations_simulated", 11*n)
			rep.Count(fmt.Sprintf("loop_%s_%s", tkName[kind], tkName[quiet]), 1)
			rep.Nontrivial(prng.Derive(0, c.Oracle, n).Seed())
			rep.Sample(map[string]any{"loop": c.Oracle, "n": n, "max_depth_n": v.Expected.Strings(), "max_depth_10n": v.Observed.Strings()}, 4)
			if v.Class != "" {
				fill(c, v)
				j.Rep.Violations = append(j.Rep.Violations, evViolation(c, v, evWrite(c)))
				break ladder
			}
		}
	}
}
