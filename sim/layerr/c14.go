package layerr

import (
	"fmt"

	"verif/sim/core"
	"verif/sim/hist"
	"verif/sim/prng"
)

// multiScenario draws k iterators over a few terms (equal RootOf entries share ONE Seq
// value), owned by m consumer threads whose op lists interleave their iterators' drains.
func multiScenario(r *prng.R, cfg GenCfg, maxIters, maxThreads int) *Scenario {
	nt := 1 + r.Intn(3)
	sc := &Scenario{}
	for i := 0; i < nt; i++ {
		sc.Terms = append(sc.Terms, GenTerm(r, cfg))
	}
	k := 2 + r.Intn(maxIters-1)
	m := 1 + r.Intn(maxThreads)
	if m > k {
		m = k
	}
	per := make([][]Op, k)
	for h := 0; h < k; h++ {
		root := r.Intn(nt)
		sc.RootOf = append(sc.RootOf, root)
		n := pilotYields(sc.Terms[root], 12)
		per[h] = drainOps(r, h, n, 12, hasRecv(sc.Terms[root]))
	}
	sc.Threads = make([][]Op, m)
	owner := make([]int, k)
	for h := 0; h < k; h++ {
		owner[h] = h % m
		if h >= m {
			owner[h] = r.Intn(m)
		}
	}
	// random merge of the iterators a thread owns
	idx := make([]int, k)
	for {
		var live []int
		for h := 0; h < k; h++ {
			if idx[h] < len(per[h]) {
				live = append(live, h)
			}
		}
		if len(live) == 0 {
			break
		}
		h := live[r.Intn(len(live))]
		sc.Threads[owner[h]] = append(sc.Threads[owner[h]], per[h][idx[h]])
		idx[h]++
	}
	return sc
}

// statelessTerm draws a term whose thunks touch no per-run state (effects and literal yields
// only): an endless stream built from Loop/Bind/Combine/Delay, optionally with an inner loop
// left by Break. Such a Seq VALUE may be started any number of times.
func statelessTerm(r *prng.R) *Term {
	tag := 0
	nt := func() int { tag++; return tag }
	eff := func() []Stmt { return []Stmt{{Tag: nt(), Ctr: -1}} }
	var chain func(n int, end *Term) *Term
	chain = func(n int, end *Term) *Term {
		t := end
		for i := 0; i < n; i++ {
			t = &Term{K: TBind, RecvCtr: -1, Val: Expr{Ctr: -1, Lit: r.Range(1, 9), Tag: nt()}, Th: &Thunk{Pre: eff(), Ret: t}}
		}
		return t
	}
	body := chain(1+r.Intn(3), leaf([]TK{TNormal, TNormal, TContinue}[r.Intn(3)]))
	if r.Chance(1, 2) {
		inner := &Term{K: TLoop, RecvCtr: -1, A: &Term{K: TDelay, RecvCtr: -1, Th: &Thunk{Pre: eff(), Ret: chain(1+r.Intn(2), leaf(TBreak))}}}
		if r.Bool() {
			body = &Term{K: TCombine, RecvCtr: -1, A: inner, B: body}
		} else {
			body = &Term{K: TCombine, RecvCtr: -1, A: body, B: inner}
		}
	}
	if r.Chance(1, 3) {
		body = &Term{K: TCombine, RecvCtr: -1, A: body, B: chain(1, leaf(TNormal))}
	}
	if r.Chance(1, 3) {
		// the whole skeleton is constructed eagerly, outside every thunk: Combine, Loop and Bind
		// VALUES (and whatever state they keep per value) are shared by all iterators started
		// from this Seq; only what a Bind continues with is built per run
		ebind := func(end *Term) *Term {
			return &Term{K: TBind, RecvCtr: -1, Val: Expr{Ctr: -1, Lit: r.Range(1, 9)}, Th: &Thunk{Pre: eff(), Ret: chain(r.Intn(2), end)}}
		}
		var eager func(depth int) *Term
		eager = func(depth int) *Term {
			switch k := r.Intn(4); {
			case depth > 0 && k == 0:
				return &Term{K: TCombine, RecvCtr: -1, A: eager(depth - 1), B: eager(depth - 1)}
			case depth > 0 && k == 1:
				// an inner loop left by Break after its first yield(s)
				return &Term{K: TLoop, RecvCtr: -1, A: &Term{K: TCombine, RecvCtr: -1, A: ebind(leaf(TNormal)), B: ebind(leaf(TBreak))}}
			default:
				return ebind(leaf(TNormal))
			}
		}
		return &Term{K: TLoop, RecvCtr: -1, A: &Term{K: TCombine, RecvCtr: -1, A: eager(2), B: eager(2)}}
	}
	if body.K == TBind && r.Bool() {
		// the loop body is a Bind constructed eagerly, outside every thunk: the Bind VALUE itself
		// is shared by all iterators started from this Seq (every iteration yields, so no fuel issue)
		body.Val.Tag = 0 // no effect at construction: the reference constructs per run, the shared value once
		return &Term{K: TLoop, RecvCtr: -1, A: body}
	}
	return &Term{K: TLoop, RecvCtr: -1, A: &Term{K: TDelay, RecvCtr: -1, Th: &Thunk{Pre: eff(), Ret: body}}}
}

// sharedValueScenario: k iterators started from ONE constructed Seq value.
func sharedValueScenario(r *prng.R, maxIters, maxThreads int) *Scenario {
	sc := &Scenario{Terms: []*Term{statelessTerm(r)}, SharedValue: true}
	k := 2 + r.Intn(maxIters-1)
	m := 1 + r.Intn(maxThreads)
	if m > k {
		m = k
	}
	per := make([][]Op, k)
	for h := 0; h < k; h++ {
		sc.RootOf = append(sc.RootOf, 0)
		n := 2 + r.Intn(8)
		for i := 0; i < n; i++ {
			per[h] = append(per[h], Op{K: OMove, H: h})
			if r.Bool() {
				per[h] = append(per[h], Op{K: OCur, H: h})
			}
		}
	}
	sc.Threads = make([][]Op, m)
	idx := make([]int, k)
	for {
		var live []int
		for h := 0; h < k; h++ {
			if idx[h] < len(per[h]) {
				live = append(live, h)
			}
		}
		if len(live) == 0 {
			break
		}
		h := live[r.Intn(len(live))]
		sc.Threads[h%m] = append(sc.Threads[h%m], per[h][idx[h]])
		idx[h]++
	}
	return sc
}

// soloOf extracts iterator h with its own ops as a single-thread scenario.
func soloOf(sc *Scenario, h int) *Scenario {
	s := &Scenario{Terms: sc.Terms, RootOf: []int{sc.RootOf[h]}, Threads: [][]Op{nil}, SharedValue: sc.SharedValue}
	for _, ops := range sc.Threads {
		for _, op := range ops {
			if op.H == h && op.K != OQuiesce {
				op.H = 0
				s.Threads[0] = append(s.Threads[0], op)
			}
		}
	}
	return s
}

func renumber(h hist.H, to int) hist.H {
	out := make(hist.H, len(h))
	for i, e := range h {
		e.H = to
		e.Th = 0
		out[i] = e
	}
	return out
}

// evalSolo (self-relative, primary): under the recorded interleaving every iterator's
// projection equals the history of the same iterator consumed alone by the same ops.
// Secondary: the whole interleaved history equals the reference's under the same choices.
func evalSolo(c *Case) Verdict {
	o := PlayOpt{PanicAt: -1, Fuel: c.Fuel, UseSched: true, Replay: c.Choices}
	inter := Play(c.Sc, Real, o)
	if inter.FuelOut {
		return Verdict{Skip: "fuel"}
	}
	for h := range c.Sc.RootOf {
		solo := Play(soloOf(c.Sc, h), Real, PlayOpt{PanicAt: -1, Fuel: c.Fuel})
		if solo.FuelOut {
			return Verdict{Skip: "fuel"}
		}
		got := renumber(ProjectHandle(inter.Hist, h), 0)
		// (both sides projected: effects of constructing a shared Seq value belong to no iterator)
		if v := diffVerdict(fmt.Sprintf("solo(h%d)", h), renumber(ProjectHandle(solo.Hist, 0), 0), got); v.Class != "" {
			return v
		}
	}
	ref := Play(c.Sc, Ref, o)
	if ref.FuelOut {
		return Verdict{Skip: "fuel"}
	}
	o.MaskRes = ref.ResMask
	inter = Play(c.Sc, Real, o)
	v := diffVerdict("refeq-interleaved", ref.Hist, inter.Hist)
	v.Expected = ref.Hist
	return v
}

// C14 (runtime level): k iterators x m threads, the PRNG picks the running thread at every
// op boundary and at every effect point inside a step.
func C14(j *core.Job) {
	perBatch, maxIters, maxThreads := 250, 4, 3
	if j.Thorough() {
		perBatch, maxIters, maxThreads = 1000, 6, 4
	}
	rep := j.Rep
	for _, k := range []string{"one_seq_value_started_several_times", "shared_seq_started_twice", "thread_switches", "sched_points", "preempted_inside_step"} {
		rep.Count(k, 0)
	}
	for _, b := range j.Batches {
		cfg := SwarmCfg(prng.Derive(j.Seed, "C14", b, "cfg"), 14, b%2 == 0)
		for i := 0; i < perBatch; i++ {
			r := prng.Derive(j.Seed, "C14", b, i)
			var sc *Scenario
			if i%5 == 4 {
				sc = sharedValueScenario(r, maxIters, maxThreads)
				rep.Count("one_seq_value_started_several_times", 1)
			} else {
				sc = multiScenario(r, cfg, maxIters, maxThreads)
			}
			// draw the interleaving once with the PRNG, then everything replays the recorded choices
			pilot := Play(sc, Real, PlayOpt{PanicAt: -1, Fuel: defaultFuel, UseSched: true, Rng: prng.Derive(j.Seed, "C14sched", b, i)})
			c := &Case{Property: "C14", Layer: "R", Oracle: "solo", Seed: j.Seed, Batch: b, Index: i, Sc: sc, UseSched: true,
				Choices: pilot.Choices, PanicAt: -1, Fuel: defaultFuel}
			v := evalSolo(c)
			rep.Evals++
			if v.Skip != "" {
				rep.Count("discarded_fuel_watchdog", 1)
				continue
			}
			rep.Count("thread_switches", pilot.Switches)
			rep.Count("sched_points", pilot.Points)
			seen := map[int]bool{}
			for _, root := range sc.RootOf {
				if seen[root] {
					rep.Count("shared_seq_started_twice", 1)
					break
				}
				seen[root] = true
			}
			// a switch while a consumer call is open = pre-emption inside a step
			open, lastTh := map[int]bool{}, -1
			for _, e := range v.Expected {
				if e.K == hist.Inv {
					open[e.Th] = true
				}
				if e.K == hist.Ret || e.K == hist.Pan {
					open[e.Th] = false
				}
				if lastTh >= 0 && e.Th != lastTh && open[lastTh] {
					rep.Count("preempted_inside_step", 1)
				}
				lastTh = e.Th
			}
			rep.SetAdd("thread_choice_sequences", prng.Derive(0, fmt.Sprint(pilot.Choices)).Seed())
			if len(sc.RootOf) >= 2 && pilot.Switches >= 2 && Effects(v.Expected) >= 2 {
				rep.Nontrivial(caseDigest(c))
			}
			if i < 1 && b == j.Batches[0] {
				var ts []string
				for _, t := range sc.Terms {
					ts = append(ts, t.String())
				}
				rep.Sample(map[string]any{"terms": ts, "root_of": sc.RootOf, "threads": fmt.Sprint(sc.Threads), "choices": pilot.Choices, "history": v.Expected.Strings()}, 2)
			}
			if v.Class != "" {
				report(j, c, v, evalSolo)
			}
		}
	}
}
