package layerr

import (
	"fmt"

	"verif/sim/core"
	"verif/sim/hist"
	"verif/sim/prng"
)

// multiScenario draws k iterators over a few terms (equal RootOf entries share ONE Seq
// value), owned by m consumer threads whose op lists interleave their iterators' drains.
func multiScenario(r *prng.R, cfg GenCfg, maxIters, maxThreads int) *Scenario {
	nt := 1 + r.Intn(3)
	sc := &Scenario{}
	for i := 0; i < nt; i++ {
		sc.Terms = append(sc.Terms, GenTerm(r, cfg))
	}
	k := 2 + r.Intn(maxIters-1)
	m := 1 + r.Intn(maxThreads)
	if m > k {
		m = k
	}
	per := make([][]Op, k)
	for h := 0; h < k; h++ {
		root := r.Intn(nt)
		sc.RootOf = append(sc.RootOf, root)
		n := pilotYields(sc.Terms[root], 12)
		per[h] = drainOps(r, h, n, 12, hasRecv(sc.Terms[root]))
	}
	sc.Threads = make([][]Op, m)
	owner := make([]int, k)
	for h := 0; h < k; h++ {
		owner[h] = h % m
		if h >= m {
			owner[h] = r.Intn(m)
		}
	}
	// random merge of the iterators a thread owns
	idx := make([]int, k)
	for {
		var live []int
		for h := 0; h < k; h++ {
			if idx[h] < len(per[h]) {
				live = append(live, h)
			}
		}
		if len(live) == 0 {
			break
		}
		h := live[r.Intn(len(live))]
		sc.Threads[owner[h]] = append(sc.Threads[owner[h]], per[h][idx[h]])
		idx[h]++
	}
	return sc
}

// soloOf extracts iterator h with its own ops as a single-thread scenario.
func soloOf(sc *Scenario, h int) *Scenario {
	s := &Scenario{Terms: sc.Terms, RootOf: []int{sc.RootOf[h]}, Threads: [][]Op{nil}}
	for _, ops := range sc.Threads {
		for _, op := range ops {
			if op.H == h && op.K != OQuiesce {
				op.H = 0
				s.Threads[0] = append(s.Threads[0], op)
			}
		}
	}
	return s
}

func renumber(h hist.H, to int) hist.H {
	out := make(hist.H, len(h))
	for i, e := range h {
		e.H = to
		e.Th = 0
		out[i] = e
	}
	return out
}

// evalSolo (self-relative, primary): under the recorded interleaving every iterator's
// projection equals the history of the same iterator consumed alone by the same ops.
// Secondary: the whole interleaved history equals the reference's under the same choices.
func evalSolo(c *Case) Verdict {
	o := PlayOpt{PanicAt: -1, Fuel: c.Fuel, UseSched: true, Replay: c.Choices}
	inter := Play(c.Sc, Real, o)
	if inter.FuelOut {
		return Verdict{Skip: "fuel"}
	}
	for h := range c.Sc.RootOf {
		solo := Play(soloOf(c.Sc, h), Real, PlayOpt{PanicAt: -1, Fuel: c.Fuel})
		if solo.FuelOut {
			return Verdict{Skip: "fuel"}
		}
		got := renumber(ProjectHandle(inter.Hist, h), 0)
		if v := diffVerdict(fmt.Sprintf("solo(h%d)", h), solo.Hist, got); v.Class != "" {
			return v
		}
	}
	ref := Play(c.Sc, Ref, o)
	if ref.FuelOut {
		return Verdict{Skip: "fuel"}
	}
	o.MaskRes = ref.ResMask
	inter = Play(c.Sc, Real, o)
	v := diffVerdict("refeq-interleaved", ref.Hist, inter.Hist)
	v.Expected = ref.Hist
	return v
}

// C14 (runtime level): k iterators x m threads, the PRNG picks the running thread at every
// op boundary and at every effect point inside a step.
func C14(j *core.Job) {
	perBatch, maxIters, maxThreads := 250, 4, 3
	if j.Thorough() {
		perBatch, maxIters, maxThreads = 1000, 6, 4
	}
	rep := j.Rep
	for _, k := range []string{"shared_seq_started_twice", "thread_switches", "sched_points", "preempted_inside_step"} {
		rep.Count(k, 0)
	}
	for _, b := range j.Batches {
		cfg := SwarmCfg(prng.Derive(j.Seed, "C14", b, "cfg"), 14, b%2 == 0)
		for i := 0; i < perBatch; i++ {
			r := prng.Derive(j.Seed, "C14", b, i)
			sc := multiScenario(r, cfg, maxIters, maxThreads)
			// draw the interleaving once with the PRNG, then everything replays the recorded choices
			pilot := Play(sc, Real, PlayOpt{PanicAt: -1, Fuel: defaultFuel, UseSched: true, Rng: prng.Derive(j.Seed, "C14sched", b, i)})
			c := &Case{Property: "C14", Layer: "R", Oracle: "solo", Seed: j.Seed, Batch: b, Index: i, Sc: sc, UseSched: true,
				Choices: pilot.Choices, PanicAt: -1, Fuel: defaultFuel}
			v := evalSolo(c)
			rep.Evals++
			if v.Skip != "" {
				rep.Count("discarded_fuel_watchdog", 1)
				continue
			}
			rep.Count("thread_switches", pilot.Switches)
			rep.Count("sched_points", pilot.Points)
			seen := map[int]bool{}
			for _, root := range sc.RootOf {
				if seen[root] {
					rep.Count("shared_seq_started_twice", 1)
					break
				}
				seen[root] = true
			}
			// a switch while a consumer call is open = pre-emption inside a step
			open, lastTh := map[int]bool{}, -1
			for _, e := range v.Expected {
				if e.K == hist.Inv {
					open[e.Th] = true
				}
				if e.K == hist.Ret || e.K == hist.Pan {
					open[e.Th] = false
				}
				if lastTh >= 0 && e.Th != lastTh && open[lastTh] {
					rep.Count("preempted_inside_step", 1)
				}
				lastTh = e.Th
			}
			rep.SetAdd("thread_choice_sequences", prng.Derive(0, fmt.Sprint(pilot.Choices)).Seed())
			if len(sc.RootOf) >= 2 && pilot.Switches >= 2 && Effects(v.Expected) >= 2 {
				rep.Nontrivial(caseDigest(c))
			}
			if i < 1 && b == j.Batches[0] {
				var ts []string
				for _, t := range sc.Terms {
					ts = append(ts, t.String())
				}
				rep.Sample(map[string]any{"terms": ts, "root_of": sc.RootOf, "threads": fmt.Sprint(sc.Threads), "choices": pilot.Choices, "history": v.Expected.Strings()}, 2)
			}
			if v.Class != "" {
				report(j, c, v, evalSolo)
			}
		}
	}
}
