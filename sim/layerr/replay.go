package layerr

import (
	"fmt"
	"os"
)

func evalFor(c *Case) evalFn {
	switch {
	case len(c.Oracle) >= 3 && c.Oracle[:3] == "law":
		return evalLaw
	case c.Oracle == "refeq":
		return evalRefEq
	case c.Oracle == "solo":
		return evalSolo
	case c.Oracle == "panic":
		return evalPanic
	case len(c.Oracle) >= 5 && c.Oracle[:5] == "depth":
		return evalDepth
	}
	return nil
}

// Replay re-executes a stored case in a fresh process; it must fail the same way.
func Replay(id, path string) int {
	c, err := LoadCase(path)
	if err != nil {
		fmt.Fprintln(os.Stderr, "INFRASTRUCTURE-FAILURE:", err)
		return 2
	}
	eval := evalFor(c)
	if eval == nil {
		fmt.Fprintln(os.Stderr, "INFRASTRUCTURE-FAILURE: unknown oracle", c.Oracle)
		return 2
	}
	v := eval(c)
	if v.Class == "" {
		fmt.Printf("REPLAY-PASSED property=%s (the stored case no longer violates the property)\n", c.Property)
		return 0
	}
	if v.Class != c.Class || v.DiffAt != c.DiffAt {
		fmt.Printf("REPLAY-DIVERGED property=%s stored=%q@%d now=%q@%d\n", c.Property, c.Class, c.DiffAt, v.Class, v.DiffAt)
		return 2
	}
	fmt.Printf("VIOLATION property=%s replay=%s\n  class: %s\n  expected[%d]: %s\n  observed[%d]: %s\n", c.Property, path, v.Class,
		v.DiffAt, v.Expected.At(v.DiffAt), v.DiffAt, v.Observed.At(v.DiffAt))
	return 1
}
