package layerr

import (
	"bytes"
	"encoding/json"
	"fmt"
	"os"
	"os/exec"
	"path/filepath"
	"strings"

	"verif/sim/core"
	"verif/sim/ev"
)

// C14Race builds sim/cmd/racer with the race detector (against /repo's working tree) and runs
// one slice of cases per batch.
func C14Race(j *core.Job) {
	rep := j.Rep
	for _, k := range []string{"race_supplement_cases", "race_supplement_shared_value_cases", "race_reports"} {
		rep.Count(k, 0)
	}
	bin := filepath.Join(ev.Root(), "bin", "racer")
	per := 150
	if j.Thorough() {
		per = 1500
	}
	for _, b := range j.Batches {
		if b == j.Batches[0] {
			modflag := []string{}
			if _, err := os.Stat(filepath.Join(ev.Root(), "sim", "go.alt.mod")); err == nil && os.Getenv("VERIF_REPO") != "" && os.Getenv("VERIF_REPO") != "/repo" {
				modflag = []string{"-modfile=go.alt.mod"}
			}
			args := append(append([]string{"build", "-race"}, modflag...), "-o", bin, "./cmd/racer")
			cmd := exec.Command("go", args...)
			cmd.Dir = filepath.Join(ev.Root(), "sim")
			cmd.Env = append(os.Environ(), "GOFLAGS=-mod=mod", "GOPROXY=off", "GOSUMDB=off", "GOTOOLCHAIN=local", "CGO_ENABLED=1")
			if out, err := cmd.CombinedOutput(); err != nil {
				ev.Infra("racer does not build with -race: %v\n%s", err, out)
			}
		}
		cmd := exec.Command(bin, fmt.Sprint(j.Seed), fmt.Sprint(b*per), fmt.Sprint(per))
		cmd.Env = append(os.Environ(), "GORACE=halt_on_error=1 exitcode=66")
		var stdout, stderr bytes.Buffer
		cmd.Stdout, cmd.Stderr = &stdout, &stderr
		err := cmd.Run()
		var res map[string]any
		json.Unmarshal(bytes.TrimSpace(stdout.Bytes()), &res)
		if n, ok := res["cases"].(float64); ok {
			rep.Evals += int(n)
			rep.Count("race_supplement_cases", int(n))
			rep.Count("race_supplement_shared_value_cases", int(res["shared"].(float64)))
		}
		race := strings.Contains(stderr.String(), "WARNING: DATA RACE")
		switch {
		case race:
			rep.Count("race_reports", 1)
			if len(rep.Violations) < maxViolationsPerWorker {
				doc := map[string]any{"Property": "C14", "Layer": "R-race", "Seed": j.Seed, "Batch": b, "First": b * per, "Count": per,
					"Class":  "data race between iterators consumed on different goroutines (race detector; runtime monitoring, not seed-replayable)",
					"Report": firstN(stderr.String(), 60)}
				path := ev.WriteReplay("C14", int64(j.Seed), 800000+b, doc)
				rep.Violations = append(rep.Violations, ev.Violation{Prop: "C14", Class: doc["Class"].(string), Replay: path})
			}
		case res["mismatch"] != nil:
			if len(rep.Violations) < maxViolationsPerWorker {
				doc := map[string]any{"Property": "C14", "Layer": "R-race", "Seed": j.Seed, "Batch": b, "First": b * per, "Count": per,
					"Class": "iterator consumed on its own goroutine does not deliver its solo sequence", "Detail": res}
				path := ev.WriteReplay("C14", int64(j.Seed), 800000+b, doc)
				rep.Violations = append(rep.Violations, ev.Violation{Prop: "C14", Class: fmt.Sprint(doc["Class"], ": ", res["mismatch"]), Replay: path})
			}
		case err != nil:
			ev.Infra("racer failed: %v\n%s", err, firstN(stderr.String(), 30))
		}
	}
}

func firstN(s string, n int) string {
	l := strings.Split(s, "\n")
	if len(l) > n {
		l = l[:n]
	}
	return strings.Join(l, "\n")
}

// ReplayRace re-runs the slice of cases of a stored race-supplement violation.
func ReplayRace(path string) int {
	data, err := os.ReadFile(path)
	if err != nil {
		return 2
	}
	var doc struct {
		Seed  uint64
		Batch int
		Class string
	}
	json.Unmarshal(data, &doc)
	rep := ev.NewReport("C14", "quick", int64(doc.Seed), "exploration")
	C14Race(&core.Job{Prop: "C14", Tier: "quick", Seed: doc.Seed, Batches: []int{doc.Batch}, Rep: rep, Total: 1})
	if len(rep.Violations) == 0 {
		fmt.Println("REPLAY-PASSED property=C14 (the stored case no longer violates the property)")
		return 0
	}
	fmt.Printf("VIOLATION property=C14 replay=%s\n  class: %s\n", path, rep.Violations[0].Class)
	return 1
}
