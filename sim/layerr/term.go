// Package layerr simulates the seq runtime directly (no compiler involved): seeded term
// descriptions are built once on the real combinators (toSeq) and once on a direct-style
// reference interpreter running as a reference coroutine (evalRef).
package layerr

import (
	"fmt"
	"strings"

	"github.com/goghcrow/go-co/seq"

	"verif/sim/prng"
	"verif/sim/refco"
	"verif/sim/vrt"
)

type TK int

const (
	TBind TK = iota
	TBindRecv
	TDelay
	TCombine
	TFor
	TWhile
	TLoop
	TNormal
	TBreak
	TContinue
	TReturn
	TReturnValue
	TDup         // construct the child once, use it twice: Combine(c, c)
	TBreakable   // seq.Breakable(A): a Break raised inside A ends A normally
	TContinuable // seq.Continuable(A): a Continue raised inside A ends A normally
	// TRec is a term that CONTAINS ITSELF: self = Combine(Delay{ if cond { Combine(A, self) } else Normal }, B).
	// One Combine VALUE is entered again while an earlier entry of it is still pending (its
	// first half suspended in A), inside ONE iterator; cond is bounded, so it terminates.
	TRec
	nTK
)

var tkName = [...]string{"Bind", "BindRecv", "Delay", "Combine", "For", "While", "Loop", "Normal", "Break", "Continue", "Return", "ReturnValue", "Dup", "Breakable", "Continuable", "Rec"}

const nCtr = 4

// Stmt is one statement of a thunk / post: log an effect, then bump a counter.
type Stmt struct {
	Tag   int
	Ctr   int // -1: none
	Delta int
}

// Expr is a value expression: Lit + ctr[Ctr]; logged when Tag != 0.
type Expr struct {
	Tag int
	Ctr int // -1: literal only
	Lit int
}

// Cond is a stateful, bounded condition: ctr[Ctr]++, log, then ctr[Ctr] <= Limit.
type Cond struct {
	Tag   int
	Ctr   int
	Limit int
}

// Thunk is a func() Seq body: statements, then (optionally by condition) a Seq expression.
type Thunk struct {
	Pre  []Stmt
	If   *Cond `json:",omitempty"`
	Ret  *Term
	Else *Term `json:",omitempty"`
}

// Term is a Seq expression. Children that are Seq expressions (A, B) and value expressions
// (Val) are evaluated when the expression is constructed; thunks when the runtime calls them.
type Term struct {
	K       TK
	A       *Term  `json:",omitempty"`
	B       *Term  `json:",omitempty"`
	Th      *Thunk `json:",omitempty"`
	Val     Expr
	Cond    *Cond  `json:",omitempty"`
	Post    []Stmt `json:",omitempty"`
	RecvTag int    `json:",omitempty"`
	RecvCtr int    `json:",omitempty"`
}

func (t *Term) String() string {
	var b strings.Builder
	t.write(&b)
	return b.String()
}

func (e Expr) String() string {
	s := fmt.Sprint(e.Lit)
	if e.Ctr >= 0 {
		s = fmt.Sprintf("c%d+%d", e.Ctr, e.Lit)
	}
	if e.Tag != 0 {
		s = fmt.Sprintf("V#%d(%s)", e.Tag, s)
	}
	return s
}

func (c *Cond) String() string { return fmt.Sprintf("#%d{c%d++<=%d}", c.Tag, c.Ctr, c.Limit) }

func stmts(ss []Stmt) string {
	var p []string
	for _, s := range ss {
		if s.Ctr >= 0 {
			p = append(p, fmt.Sprintf("E#%d;c%d+=%d", s.Tag, s.Ctr, s.Delta))
		} else {
			p = append(p, fmt.Sprintf("E#%d", s.Tag))
		}
	}
	return strings.Join(p, ";")
}

func (th *Thunk) write(b *strings.Builder) {
	b.WriteString("{" + stmts(th.Pre) + "; ")
	if th.If != nil {
		b.WriteString("if " + th.If.String() + " ")
		th.Ret.write(b)
		b.WriteString(" else ")
		th.Else.write(b)
	} else {
		th.Ret.write(b)
	}
	b.WriteString("}")
}

func (t *Term) write(b *strings.Builder) {
	b.WriteString(tkName[t.K])
	switch t.K {
	case TBind, TBindRecv:
		b.WriteString("(" + t.Val.String() + ", ")
		t.Th.write(b)
		b.WriteString(")")
	case TDelay:
		b.WriteString("(")
		t.Th.write(b)
		b.WriteString(")")
	case TCombine:
		b.WriteString("(")
		t.A.write(b)
		b.WriteString(", ")
		t.B.write(b)
		b.WriteString(")")
	case TDup, TBreakable, TContinuable:
		b.WriteString("(")
		t.A.write(b)
		b.WriteString(")")
	case TRec:
		b.WriteString("(" + t.Cond.String() + ", ")
		t.A.write(b)
		b.WriteString(", ")
		t.B.write(b)
		b.WriteString(")")
	case TFor:
		b.WriteString("(" + t.Cond.String() + ", {" + stmts(t.Post) + "}, ")
		t.A.write(b)
		b.WriteString(")")
	case TWhile:
		b.WriteString("(" + t.Cond.String() + ", ")
		t.A.write(b)
		b.WriteString(")")
	case TLoop:
		b.WriteString("(")
		t.A.write(b)
		b.WriteString(")")
	case TReturnValue:
		b.WriteString("(" + t.Val.String() + ")")
	}
}

// Size counts nodes.
func (t *Term) Size() int {
	if t == nil {
		return 0
	}
	n := 1 + t.A.Size() + t.B.Size()
	if t.Th != nil {
		n += t.Th.Ret.Size() + t.Th.Else.Size()
	}
	return n
}

// Shape is the constructor skeleton (no tags, literals): the "distinct shape" measure.
func (t *Term) Shape() string {
	if t == nil {
		return ""
	}
	s := tkName[t.K][:2]
	if t.K == TReturnValue {
		s = "RV"
	}
	s += "(" + t.A.Shape() + t.B.Shape()
	if t.Th != nil {
		if t.Th.If != nil {
			s += "?"
		}
		s += t.Th.Ret.Shape() + ":" + t.Th.Else.Shape()
	}
	return s + ")"
}

// ---------------------------------------------------------------------------------------
// shared "little effectful programs" — executed identically by both builders

type state struct{ ctr [nCtr]int }

func (st *state) stmts(ss []Stmt) {
	for _, s := range ss {
		if s.Ctr >= 0 {
			vrt.E(s.Tag, st.ctr[s.Ctr])
			st.ctr[s.Ctr] += s.Delta
		} else {
			vrt.E(s.Tag)
		}
	}
}

func (st *state) expr(e Expr) int {
	v := e.Lit
	if e.Ctr >= 0 {
		v += st.ctr[e.Ctr]
	}
	if e.Tag != 0 {
		vrt.E(e.Tag, v)
	}
	return v
}

func (st *state) cond(c *Cond) bool {
	st.ctr[c.Ctr]++
	vrt.E(c.Tag, st.ctr[c.Ctr])
	return st.ctr[c.Ctr] <= c.Limit
}

func (st *state) recv(t *Term, r int) {
	vrt.E(t.RecvTag, r)
	if t.RecvCtr >= 0 {
		st.ctr[t.RecvCtr] = r
	}
}

// ---------------------------------------------------------------------------------------
// builder 1: the real combinators, constructor for constructor

func toSeq(t *Term, st *state) seq.Seq[int] {
	thunk := func(th *Thunk) func() seq.Seq[int] {
		return func() seq.Seq[int] {
			st.stmts(th.Pre)
			if th.If != nil && !st.cond(th.If) {
				return toSeq(th.Else, st)
			}
			return toSeq(th.Ret, st)
		}
	}
	switch t.K {
	case TBind:
		v := st.expr(t.Val)
		return seq.Bind(v, thunk(t.Th))
	case TBindRecv:
		v := st.expr(t.Val)
		th := thunk(t.Th)
		return seq.BindRecv(v, func(r int) seq.Seq[int] {
			st.recv(t, r)
			return th()
		})
	case TDelay:
		return seq.Delay(thunk(t.Th))
	case TCombine:
		a := toSeq(t.A, st)
		b := toSeq(t.B, st)
		return seq.Combine(a, b)
	case TDup:
		a := toSeq(t.A, st)
		return seq.Combine(a, a)
	case TRec:
		a, b := toSeq(t.A, st), toSeq(t.B, st)
		var self seq.Seq[int]
		self = seq.Combine(seq.Delay(func() seq.Seq[int] {
			if st.cond(t.Cond) {
				return seq.Combine(a, self)
			}
			return seq.Normal[int]()
		}), b)
		return self
	case TBreakable:
		return seq.Breakable(toSeq(t.A, st))
	case TContinuable:
		return seq.Continuable(toSeq(t.A, st))
	case TFor:
		body := toSeq(t.A, st)
		return seq.For(func() bool { return st.cond(t.Cond) }, func() { st.stmts(t.Post) }, body)
	case TWhile:
		body := toSeq(t.A, st)
		return seq.While(func() bool { return st.cond(t.Cond) }, body)
	case TLoop:
		return seq.Loop(toSeq(t.A, st))
	case TNormal:
		return seq.Normal[int]()
	case TBreak:
		return seq.Break[int]()
	case TContinue:
		return seq.Continue[int]()
	case TReturn:
		return seq.Return[int]()
	case TReturnValue:
		return seq.ReturnValue(st.expr(t.Val))
	}
	panic("toSeq: bad term")
}

// RootSeq is the re-runnable Seq of a description: per-run state is allocated inside the
// outermost thunk, exactly as compiled generators keep their locals.
func RootSeq(t *Term) seq.Seq[int] {
	return seq.Delay(func() seq.Seq[int] {
		st := &state{}
		return toSeq(t, st)
	})
}

// ---------------------------------------------------------------------------------------
// builder 2: reference interpreter — structured loops with break/continue/return

type sig int

const (
	sNormal sig = iota
	sBreak
	sContinue
	sReturn
)

// cnode is a constructed Seq expression: value expressions already evaluated.
type cnode struct {
	t    *Term
	v    int
	a, b *cnode
}

func construct(t *Term, st *state) *cnode {
	c := &cnode{t: t}
	switch t.K {
	case TBind, TBindRecv, TReturnValue:
		c.v = st.expr(t.Val)
	case TCombine, TRec:
		c.a = construct(t.A, st)
		c.b = construct(t.B, st)
	case TDup:
		c.a = construct(t.A, st)
		c.b = c.a
	case TFor, TWhile, TLoop, TBreakable, TContinuable:
		c.a = construct(t.A, st)
	}
	return c
}

type refRun struct {
	st *state
	y  *refco.Y[int]
}

func (r *refRun) thunk(th *Thunk) (sig, int) {
	r.st.stmts(th.Pre)
	if th.If != nil && !r.st.cond(th.If) {
		return r.exec(construct(th.Else, r.st))
	}
	return r.exec(construct(th.Ret, r.st))
}

func (r *refRun) exec(c *cnode) (sig, int) {
	t := c.t
	switch t.K {
	case TBind:
		r.y.Yield(c.v)
		return r.thunk(t.Th)
	case TBindRecv:
		got := r.y.YieldRecv(c.v)
		r.st.recv(t, got)
		return r.thunk(t.Th)
	case TDelay:
		return r.thunk(t.Th)
	case TCombine, TDup:
		if s, v := r.exec(c.a); s != sNormal {
			return s, v
		}
		return r.exec(c.b)
	case TRec:
		if r.st.cond(t.Cond) {
			if s, v := r.exec(c.a); s != sNormal {
				return s, v
			}
			if s, v := r.exec(c); s != sNormal {
				return s, v
			}
		}
		return r.exec(c.b)
	case TBreakable:
		s, v := r.exec(c.a)
		if s == sBreak {
			s = sNormal
		}
		return s, v
	case TContinuable:
		s, v := r.exec(c.a)
		if s == sContinue {
			s = sNormal
		}
		return s, v
	case TFor, TWhile, TLoop:
		first := true
		for {
			if !first && t.K == TFor {
				r.st.stmts(t.Post)
			}
			first = false
			if t.K != TLoop && !r.st.cond(t.Cond) {
				return sNormal, 0
			}
			s, v := r.exec(c.a)
			switch s {
			case sBreak:
				return sNormal, 0
			case sReturn:
				return sReturn, v
			}
		}
	case TNormal:
		return sNormal, 0
	case TBreak:
		return sBreak, 0
	case TContinue:
		return sContinue, 0
	case TReturn:
		return sReturn, 0
	case TReturnValue:
		return sReturn, c.v
	}
	panic("exec: bad term")
}

// RefIter runs the description on the reference coroutine.
func RefIter(t *Term) refco.Iter[int] {
	return refco.GoResult(func(y *refco.Y[int]) int {
		st := &state{}
		r := &refRun{st: st, y: y}
		_, v := r.exec(construct(t, st))
		return v
	})
}

// ---------------------------------------------------------------------------------------
// seeded generation

// GenCfg is the swarm configuration of one batch of terms.
type GenCfg struct {
	W       [nTK]int // constructor weights (0 = disabled)
	MaxSize int
	IfPct   int // chance (percent) that a thunk ends in a two-way conditional
	MaxLim  int // bound of condition limits
	Recv    bool
}

func SwarmCfg(r *prng.R, maxSize int, recv bool) GenCfg {
	c := GenCfg{MaxSize: 3 + r.Intn(maxSize-2), IfPct: r.Intn(60), MaxLim: 1 + r.Intn(4), Recv: recv}
	for k := TK(0); k < nTK; k++ {
		if r.Chance(3, 4) {
			c.W[k] = 1 + r.Intn(5)
		}
	}
	c.W[TBind] += 2
	c.W[TNormal] += 1
	if !recv {
		c.W[TBindRecv] = 0
	}
	return c
}

type gen struct {
	r    *prng.R
	cfg  GenCfg
	tag  int
	left int
}

func (g *gen) nextTag() int { g.tag++; return g.tag }

func (g *gen) stmt() Stmt {
	s := Stmt{Tag: g.nextTag(), Ctr: -1}
	if g.r.Chance(1, 2) {
		s.Ctr = g.r.Intn(nCtr)
		s.Delta = g.r.Range(-1, 2)
	}
	return s
}

func (g *gen) expr() Expr {
	e := Expr{Ctr: -1, Lit: g.r.Range(0, 9)}
	if g.r.Chance(1, 2) {
		e.Tag = g.nextTag()
	}
	if g.r.Chance(1, 2) {
		e.Ctr = g.r.Intn(nCtr)
	}
	return e
}

func (g *gen) cond() *Cond {
	return &Cond{Tag: g.nextTag(), Ctr: g.r.Intn(nCtr), Limit: g.r.Range(0, g.cfg.MaxLim)}
}

func (g *gen) thunk(depth int) *Thunk {
	th := &Thunk{}
	n := 1 + g.r.Intn(2)
	for i := 0; i < n; i++ {
		th.Pre = append(th.Pre, g.stmt())
	}
	if g.r.Intn(100) < g.cfg.IfPct && g.left > 1 {
		th.If = g.cond()
		th.Ret = g.term(depth + 1)
		th.Else = g.term(depth + 1)
	} else {
		th.Ret = g.term(depth + 1)
	}
	return th
}

func (g *gen) leaf() *Term {
	w := []int{g.cfg.W[TNormal] + 1, g.cfg.W[TBreak], g.cfg.W[TContinue], g.cfg.W[TReturn], g.cfg.W[TReturnValue]}
	k := []TK{TNormal, TBreak, TContinue, TReturn, TReturnValue}[g.r.Pick(w)]
	t := &Term{K: k, RecvCtr: -1}
	if k == TReturnValue {
		t.Val = g.expr()
	}
	return t
}

func (g *gen) term(depth int) *Term {
	g.left--
	if g.left <= 0 || depth > 12 {
		return g.leaf()
	}
	w := g.cfg.W
	k := TK(g.r.Pick(w[:]))
	t := &Term{K: k, RecvCtr: -1}
	switch k {
	case TBind:
		t.Val = g.expr()
		t.Th = g.thunk(depth)
	case TBindRecv:
		t.Val = g.expr()
		t.RecvTag = g.nextTag()
		if g.r.Chance(1, 2) {
			t.RecvCtr = g.r.Intn(nCtr)
		}
		t.Th = g.thunk(depth)
	case TDelay:
		t.Th = g.thunk(depth)
	case TCombine:
		t.A = g.term(depth + 1)
		t.B = g.term(depth + 1)
	case TRec:
		t.Cond = g.cond()
		t.A = g.term(depth + 1)
		t.B = g.term(depth + 1)
	case TDup, TBreakable, TContinuable:
		t.A = g.term(depth + 1)
	case TFor:
		t.Cond = g.cond()
		n := g.r.Intn(3)
		for i := 0; i < n; i++ {
			t.Post = append(t.Post, g.stmt())
		}
		t.A = g.term(depth + 1)
	case TWhile:
		t.Cond = g.cond()
		t.A = g.term(depth + 1)
	case TLoop:
		// the body of a condition-less loop is a thunk with an effect, so the fuel
		// watchdog always sees a non-terminating loop
		t.A = &Term{K: TDelay, RecvCtr: -1, Th: g.thunk(depth + 1)}
	default:
		return g.leafOf(k)
	}
	return t
}

func (g *gen) leafOf(k TK) *Term {
	t := &Term{K: k, RecvCtr: -1}
	if k == TReturnValue {
		t.Val = g.expr()
	}
	return t
}

// GenTerm draws one term description.
func GenTerm(r *prng.R, cfg GenCfg) *Term {
	g := &gen{r: r, cfg: cfg, left: cfg.MaxSize}
	t := g.term(0)
	if t.K >= TNormal && t.K <= TReturnValue && cfg.MaxSize > 2 {
		// a bare leaf explores nothing: put it behind a yield
		t = &Term{K: TBind, RecvCtr: -1, Val: g.expr(), Th: &Thunk{Pre: []Stmt{g.stmt()}, Ret: t}}
	}
	return t
}
