package layerr

import (
	"encoding/json"
	"fmt"
	"math"
	"os"
	"runtime"
	"sort"
	"strings"
	"time"

	"github.com/goghcrow/go-co/seq"

	"verif/sim/core"
	"verif/sim/ev"
	"verif/sim/hist"
	"verif/sim/prng"
	"verif/sim/refco"
)

// ---- C10: the range-helper iterators vs Go's own range statement -------------------------
//
// The iterator and a mutator of the ranged collection (or a channel producer) are the two
// actors; the simulator decides the order of iterator steps and mutator steps. The
// reference is the native range statement run as a coroutine that yields each pair, with
// the same mutator steps applied while it is suspended.

type MutK int

const (
	MSet     MutK = iota // slice: x[i] = v (ahead, behind or at the cursor)        map: m[k] = v (existing key)
	MAppend              // slice: outer = append(outer, v) (iterator must not see it)
	MReslice             // slice: outer = outer[:len/2]
	MDelete              // map: delete(m, k)
	MSend                // chan: ch <- v
	MClose               // chan: close(ch)
	MInsert              // map: m[k] = v for a key that is NOT in the map (may or may not be visited)
)

type Mut struct {
	K MutK
	I int // slice index / index into the key universe
	V int
}

// Step is one simulator step after a successful advance: how often Current is read
// (1 or 2: the compiler emits it.Current().Key, it.Current().Val) and the mutator steps.
type Step struct {
	Cur  int
	Muts []Mut `json:",omitempty"`
}

type C10Case struct {
	Property string
	Kind     string // string | int | slice | slice-any | map | map-any | chan
	Str      []byte `json:",omitempty"`
	N        int    `json:",omitempty"`
	IntType  string `json:",omitempty"` // int-typed: int8 uint8 int16 uint16 named16 int32 uint32 int64 uint64 uint uintptr
	NV       int64  `json:",omitempty"` // int-typed: the limit (signed types)
	UV       uint64 `json:",omitempty"` // int-typed: the limit (unsigned types)
	Elems    []int  `json:",omitempty"` // slice elements / channel prefill / map values by key index
	Nil      []bool `json:",omitempty"` // slice-any / map-any: element i is a nil interface
	NilKey   bool   `json:",omitempty"` // map-any: one key is the nil interface
	NaNKey   bool   `json:",omitempty"` // map-any: one key is NaN (not equal to itself: a lookup never finds it)
	Cap      int    `json:",omitempty"`
	Closed   bool   `json:",omitempty"` // chan: closed before the loop
	Steps    []Step
	Seed     uint64
	Batch    int
	Index    int

	Class    string   `json:",omitempty"`
	Expected []string `json:",omitempty"`
	Observed []string `json:",omitempty"`
	DiffAt   int      `json:",omitempty"`
}

type pairIt interface {
	MoveNext() bool
	Cur() (string, string) // rendered key, value
}

func show(v any) string { return fmt.Sprintf("%#v", v) }

type curFn func() (string, string)

type realIt struct {
	next func() bool
	cur  curFn
}

func (r realIt) MoveNext() bool        { return r.next() }
func (r realIt) Cur() (string, string) { return r.cur() }

type refPair struct{ k, v string }

type refIt struct{ it refco.Iter[refPair] }

func (r refIt) MoveNext() bool        { return r.it.MoveNext() }
func (r refIt) Cur() (string, string) { p := r.it.Current(); return p.k, p.v }

// world is the mutable state both actors share in one run.
type world struct {
	outer    []int
	outerAny []any
	m        map[int]int
	mAny     map[any]any
	ch       chan int
	keys     []any // key universe of map-any
}

func newWorld(c *C10Case) *world {
	w := &world{}
	switch c.Kind {
	case "slice":
		w.outer = make([]int, len(c.Elems), len(c.Elems)+c.Cap)
		copy(w.outer, c.Elems)
		if len(c.Elems) == 0 && c.Cap == 0 {
			w.outer = nil
		}
	case "slice-any":
		w.outerAny = make([]any, len(c.Elems), len(c.Elems)+c.Cap)
		for i, e := range c.Elems {
			if !c.Nil[i] {
				w.outerAny[i] = e
			}
		}
	case "map":
		if c.N >= 0 {
			w.m = map[int]int{}
			for i, e := range c.Elems {
				w.m[i*7] = e
			}
		}
	case "map-any":
		w.mAny = map[any]any{}
		for i, e := range c.Elems {
			var k any = fmt.Sprintf("k%d", i)
			if i == 0 && c.NilKey {
				k = nil
			} else if i == 1 && c.NaNKey {
				k = math.NaN()
			} else if i%3 == 1 {
				k = i
			}
			w.keys = append(w.keys, k)
			if c.Nil[i] {
				w.mAny[k] = nil
			} else {
				w.mAny[k] = e
			}
		}
	case "chan":
		w.ch = make(chan int, c.Cap)
		for _, e := range c.Elems {
			w.ch <- e
		}
		if c.Closed {
			close(w.ch)
		}
	}
	return w
}

// apply performs one mutator step; it returns false when the step is not applicable in
// the current state (e.g. send on a full or closed channel) and was skipped.
func (w *world) apply(c *C10Case, m Mut, closed *bool) bool {
	switch c.Kind {
	case "slice":
		switch m.K {
		case MSet:
			if m.I < cap(w.outer) && m.I < len(w.outer[:cap(w.outer)]) {
				w.outer[:cap(w.outer)][m.I] = m.V
				return true
			}
		case MAppend:
			w.outer = append(w.outer, m.V)
			return true
		case MReslice:
			w.outer = w.outer[:len(w.outer)/2]
			return true
		}
	case "slice-any":
		switch m.K {
		case MSet:
			if m.I < len(w.outerAny) {
				if m.V%2 == 0 {
					w.outerAny[m.I] = nil
				} else {
					w.outerAny[m.I] = m.V
				}
				return true
			}
		case MAppend:
			w.outerAny = append(w.outerAny, m.V)
			return true
		}
	case "map":
		switch m.K {
		case MSet:
			if _, ok := w.m[m.I*7]; ok {
				w.m[m.I*7] = m.V
				return true
			}
		case MDelete:
			if _, ok := w.m[m.I*7]; ok {
				delete(w.m, m.I*7)
				return true
			}
		case MInsert:
			if _, ok := w.m[m.I*7]; !ok {
				w.m[m.I*7] = m.V
				return true
			}
		}
	case "map-any":
		if m.I >= len(w.keys) {
			return false
		}
		k := w.keys[m.I]
		if f, isF := k.(float64); isF && f != f {
			return false // an entry with a NaN key can be neither found nor overwritten nor deleted
		}
		switch m.K {
		case MSet:
			if _, ok := w.mAny[k]; ok {
				if m.V%2 == 0 {
					w.mAny[k] = nil
				} else {
					w.mAny[k] = m.V
				}
				return true
			}
		case MDelete:
			if _, ok := w.mAny[k]; ok {
				delete(w.mAny, k)
				return true
			}
		}
	case "chan":
		switch m.K {
		case MSend:
			if !*closed && len(w.ch) < cap(w.ch) {
				w.ch <- m.V
				return true
			}
		case MClose:
			if !*closed {
				close(w.ch)
				*closed = true
				return true
			}
		}
	}
	return false
}

type named16 int16

type intT interface {
	~int8 | ~uint8 | ~int16 | ~uint16 | ~int32 | ~uint32 | ~int64 | ~uint64 | ~uint | ~uintptr
}

func typedReal[T intT](n T) pairIt {
	it := seq.NewIntegerIter(n)
	return realIt{it.MoveNext, func() (string, string) { p := it.Current(); return show(p.Key), "-" }}
}

// typedInt dispatches on the integer type of an int-typed case.
func typedInt(c *C10Case, y *refco.Y[refPair]) pairIt {
	switch c.IntType {
	case "int8":
		if y != nil {
			for i := range int8(c.NV) {
				y.Yield(refPair{show(i), "-"})
			}
			return nil
		}
		return typedReal(int8(c.NV))
	case "uint8":
		if y != nil {
			for i := range uint8(c.UV) {
				y.Yield(refPair{show(i), "-"})
			}
			return nil
		}
		return typedReal(uint8(c.UV))
	case "int16":
		if y != nil {
			for i := range int16(c.NV) {
				y.Yield(refPair{show(i), "-"})
			}
			return nil
		}
		return typedReal(int16(c.NV))
	case "uint16":
		if y != nil {
			for i := range uint16(c.UV) {
				y.Yield(refPair{show(i), "-"})
			}
			return nil
		}
		return typedReal(uint16(c.UV))
	case "named16":
		if y != nil {
			for i := range named16(c.NV) {
				y.Yield(refPair{show(i), "-"})
			}
			return nil
		}
		return typedReal(named16(c.NV))
	case "int32":
		if y != nil {
			for i := range int32(c.NV) {
				y.Yield(refPair{show(i), "-"})
			}
			return nil
		}
		return typedReal(int32(c.NV))
	case "uint32":
		if y != nil {
			for i := range uint32(c.UV) {
				y.Yield(refPair{show(i), "-"})
			}
			return nil
		}
		return typedReal(uint32(c.UV))
	case "int64":
		if y != nil {
			for i := range c.NV {
				y.Yield(refPair{show(i), "-"})
			}
			return nil
		}
		return typedReal(c.NV)
	case "uint64":
		if y != nil {
			for i := range c.UV {
				y.Yield(refPair{show(i), "-"})
			}
			return nil
		}
		return typedReal(c.UV)
	case "uint":
		if y != nil {
			for i := range uint(c.UV) {
				y.Yield(refPair{show(i), "-"})
			}
			return nil
		}
		return typedReal(uint(c.UV))
	case "uintptr":
		if y != nil {
			for i := range uintptr(c.UV) {
				y.Yield(refPair{show(i), "-"})
			}
			return nil
		}
		return typedReal(uintptr(c.UV))
	}
	panic("bad integer type " + c.IntType)
}

func mkReal(c *C10Case, w *world) pairIt {
	switch c.Kind {
	case "int-typed":
		return typedInt(c, nil)
	case "string":
		it := seq.NewStringIter(string(c.Str))
		return realIt{it.MoveNext, func() (string, string) { p := it.Current(); return show(p.Key), show(p.Val) }}
	case "int":
		it := seq.NewIntegerIter(c.N)
		return realIt{it.MoveNext, func() (string, string) { p := it.Current(); return show(p.Key), "-" }}
	case "slice":
		it := seq.NewSliceIter(w.outer)
		return realIt{it.MoveNext, func() (string, string) { p := it.Current(); return show(p.Key), show(p.Val) }}
	case "slice-any":
		it := seq.NewSliceIter(w.outerAny)
		return realIt{it.MoveNext, func() (string, string) { p := it.Current(); return show(p.Key), show(p.Val) }}
	case "map":
		it := seq.NewMapIter(w.m)
		return realIt{it.MoveNext, func() (string, string) { p := it.Current(); return show(p.Key), show(p.Val) }}
	case "map-any":
		it := seq.NewMapIter(w.mAny)
		return realIt{it.MoveNext, func() (string, string) { p := it.Current(); return show(p.Key), show(p.Val) }}
	case "chan":
		it := seq.NewChanIter[int](w.ch)
		return realIt{it.MoveNext, func() (string, string) { p := it.Current(); return show(p.Key), "-" }}
	}
	panic("bad kind")
}

func mkRef(c *C10Case, w *world) pairIt {
	return refIt{refco.Go(func(y *refco.Y[refPair]) {
		switch c.Kind {
		case "string":
			for i, r := range string(c.Str) {
				y.Yield(refPair{show(i), show(r)})
			}
		case "int":
			for i := range c.N {
				y.Yield(refPair{show(i), "-"})
			}
		case "int-typed":
			typedInt(c, y)
		case "slice":
			for i, v := range w.outer {
				y.Yield(refPair{show(i), show(v)})
			}
		case "slice-any":
			for i, v := range w.outerAny {
				y.Yield(refPair{show(i), show(v)})
			}
		case "map":
			for k, v := range w.m {
				y.Yield(refPair{show(k), show(v)})
			}
		case "map-any":
			for k, v := range w.mAny {
				y.Yield(refPair{show(k), show(v)})
			}
		case "chan":
			for v := range w.ch {
				y.Yield(refPair{show(v), "-"})
			}
		}
	})}
}

// canAdvance: the simulator only lets the iterator step when the step cannot block.
func canAdvance(c *C10Case, w *world, closed bool) bool {
	return c.Kind != "chan" || closed || len(w.ch) > 0
}

// playC10 runs the step script on one implementation and returns its history.
func playC10(c *C10Case, real bool) (h hist.H, visits []refPair, applied int) {
	defer refco.KillAll()
	w := newWorld(c)
	var it pairIt
	if real {
		it = mkReal(c, w)
	} else {
		it = mkRef(c, w)
	}
	closed := c.Closed
	for si := 0; ; si++ {
		if !canAdvance(c, w, closed) {
			// nothing buffered and not closed: the producer must act first; close ends the run
			close(w.ch)
			closed = true
			h = append(h, hist.Event{K: hist.Mut, H: -1, Op: "producer-close-to-unblock", OK: -1})
		}
		ok := false
		func() {
			defer func() {
				if p := recover(); p != nil {
					h = append(h, hist.Event{K: hist.Pan, H: 0, Op: "MoveNext", S: fmt.Sprint(p), OK: -1})
				}
			}()
			ok = it.MoveNext()
			h = append(h, hist.Event{K: hist.Ret, H: 0, Op: "MoveNext", OK: b2i(ok)})
		}()
		if !ok {
			break
		}
		var st Step
		if si < len(c.Steps) {
			st = c.Steps[si]
		} else {
			st = Step{Cur: 1}
		}
		panicked := false
		for k := 0; k < st.Cur; k++ {
			func() {
				defer func() {
					if p := recover(); p != nil {
						panicked = true
						h = append(h, hist.Event{K: hist.Pan, H: 0, Op: "Current", S: fmt.Sprint(p), OK: -1})
					}
				}()
				kk, vv := it.Cur()
				h = append(h, hist.Event{K: hist.Ret, H: 0, Op: "Current", S: kk + " => " + vv, OK: -1})
				if k == 0 {
					visits = append(visits, refPair{kk, vv})
				}
			}()
		}
		if panicked {
			break
		}
		for _, m := range st.Muts {
			if w.apply(c, m, &closed) {
				applied++
				h = append(h, hist.Event{K: hist.Mut, H: -1, Op: fmt.Sprintf("mut%d", m.K), V: []int64{int64(m.I), int64(m.V)}, OK: -1})
			}
		}
		if si > c.stepCap() {
			break // the consumer abandons the iterator (both sides at the same step)
		}
	}
	return
}

// mapInvariant is the spec-derived oracle for multi-entry maps (Go randomises the order on
// both sides): replaying the visit/mutation history against a model map, every visit must
// be of a key present at that moment, never seen before, with its current value; at the
// end every key still present must have been visited.
func mapInvariant(c *C10Case, h hist.H) string {
	model := map[string]string{}
	w := newWorld(c)
	keyOf := func(i int) string {
		if c.Kind == "map" {
			return show(i * 7)
		}
		return show(w.keys[i])
	}
	if c.Kind == "map" {
		for k, v := range w.m {
			model[show(k)] = show(v)
		}
	} else {
		for k, v := range w.mAny { // (a NaN key is only reachable by ranging)
			model[show(k)] = show(v)
		}
	}
	seen := map[string]bool{}
	optional := map[string]bool{} // created while the loop ran: may be produced or skipped
	ended := false
	lastCur := "" // key named by the Current calls since the latest advance
	for _, e := range h {
		switch {
		case e.K == hist.Pan:
			return "panic: " + e.S
		case e.K == hist.Ret && e.Op == "Current":
			var k, v string
			for i := 0; i+4 <= len(e.S); i++ {
				if e.S[i:i+4] == " => " {
					k, v = e.S[:i], e.S[i+4:]
					break
				}
			}
			cur, ok := model[k]
			if !ok {
				return "visited key " + k + " which is not in the map (deleted before being reached, or never there)"
			}
			if cur != v {
				return "key " + k + " visited with value " + v + ", map holds " + cur
			}
			if seen[k] && lastCur != k {
				return "key " + k + " visited twice"
			}
			seen[k], lastCur = true, k
		case e.K == hist.Ret && e.Op == "MoveNext" && e.OK == 1:
			lastCur = "" // the next Current tells which key (repeated Current calls name it again)
		case e.K == hist.Ret && e.Op == "MoveNext" && e.OK == 0:
			ended = true
		case e.K == hist.Mut:
			k := keyOf(int(e.V[0]))
			if e.Op == fmt.Sprintf("mut%d", MDelete) {
				delete(model, k)
				delete(seen, k) // re-created later it is a new entry, which may be produced again
			} else {
				if e.Op == fmt.Sprintf("mut%d", MInsert) {
					optional[k] = true
				}
				val := int(e.V[1])
				if c.Kind == "map-any" && val%2 == 0 {
					model[k] = show(nil)
				} else {
					model[k] = show(val)
				}
			}
		}
	}
	if ended {
		var missing []string
		for k := range model {
			if !seen[k] && !optional[k] {
				missing = append(missing, k)
			}
		}
		sort.Strings(missing)
		if len(missing) > 0 {
			return fmt.Sprint("keys never visited: ", missing)
		}
	}
	return ""
}

func dupVisit(visits []refPair) string {
	seen := map[string]bool{}
	for _, p := range visits {
		if seen[p.k] {
			return "key " + p.k + " visited twice"
		}
		seen[p.k] = true
	}
	return ""
}

// ---- a range over a nil channel blocks forever ----------------------------------------------
//
// The only case in which "what the loop does" is "never return". The advance runs on its own
// goroutine; it either finishes (microseconds) or parks in a receive from a nil channel, a state
// the Go runtime names in its goroutine dump and that nothing can ever leave: the verdict does
// not depend on timing. (The parked goroutine is leaked; a worker runs a handful of these.)

var nilChanMark = "[chan receive (nil chan)"

func blockedOrDone(advance func() bool) hist.H {
	before := strings.Count(allStacks(), nilChanMark)
	done := make(chan bool, 1)
	go func() { done <- advance() }()
	for i := 0; i < 5000; i++ {
		select {
		case ok := <-done:
			return hist.H{{K: hist.Ret, H: 0, Op: "MoveNext", OK: b2i(ok)}}
		default:
		}
		time.Sleep(time.Millisecond)
		if i%10 == 9 && strings.Count(allStacks(), nilChanMark) > before {
			return hist.H{{K: hist.Mut, H: 0, Op: "MoveNext blocks forever (receive from a nil channel)", OK: -1}}
		}
	}
	panic("C10: an advance over a nil channel neither finished nor parked within 5 s")
}

func allStacks() string {
	buf := make([]byte, 1<<20)
	return string(buf[:runtime.Stack(buf, true)])
}

func evalC10(c *C10Case) (class string, exp, obs hist.H, at int) {
	if c.Kind == "chan-nil" {
		var ch chan int
		it := seq.NewChanIter[int](ch)
		real := blockedOrDone(it.MoveNext)
		ref := blockedOrDone(func() bool {
			for range ch {
				return true
			}
			return false
		})
		if i := hist.FirstDiff(ref, real); i >= 0 {
			return "native-range: a range over a nil channel blocks forever; " + classOf(ref, real, i), ref, real, i
		}
		return "", ref, real, -1
	}
	real, visits, _ := playC10(c, true)
	isMap := c.Kind == "map" || c.Kind == "map-any"
	inserts := false
	for _, st := range c.Steps {
		for _, m := range st.Muts {
			inserts = inserts || m.K == MInsert
		}
	}
	if isMap && (len(c.Elems) > 1 || inserts) {
		// order-insensitive oracle, applied to the real iterator AND (as a self-check of the
		// oracle) to Go's own range
		ref, rv, _ := playC10(c, false)
		_, _ = rv, visits
		if msg := mapInvariant(c, ref); msg != "" {
			panic("C10 oracle self-check failed on native range: " + msg)
		}
		if msg := mapInvariant(c, real); msg != "" {
			return "map-invariant: " + msg, ref, real, 0
		}
		return "", ref, real, -1
	}
	ref, _, _ := playC10(c, false)
	if i := hist.FirstDiff(ref, real); i >= 0 {
		return "native-range: " + classOf(ref, real, i), ref, real, i
	}
	return "", ref, real, -1
}

// ---- generation -------------------------------------------------------------------------

// ASCII; the first and last rune of every encoded length (U+0080, U+07FF, U+0800, U+FFFF,
// U+10000, U+10FFFF); U+FFFD validly encoded (it must stay ONE rune of width 3); invalid
// bytes, truncated sequences, a surrogate half, overlong and out-of-range encodings; NUL.
var alphabet = []string{"a", "z", "é", "€", "\U0001F600", "\xff", "\xc3", "\xe2\x82", "\xed\xa0\x80", "\x80", "\xf0\x9f", "\x00",
	"\uFFFD", "\u0080", "\u07ff", "\u0800", "\uffff", "\U00010000", "\U0010FFFF", "\xc0\x80", "\xe0\x80\x80", "\xf4\x90\x80\x80", "\xbf", "\x7f"}

// nthString enumerates all strings over the alphabet by length (0, 1, 2, ...).
func nthString(n int) ([]byte, bool) {
	k := len(alphabet)
	length, block := 0, 1
	for n >= block {
		n -= block
		length++
		block *= k
		if length > 6 {
			return nil, false
		}
	}
	var out []byte
	for i := 0; i < length; i++ {
		out = append(out, alphabet[n%k]...)
		n /= k
	}
	return out, true
}

// stepCap bounds the number of advances of one run; 16-bit limits are drained completely.
func (c *C10Case) stepCap() int {
	if c.Kind == "int-typed" {
		switch c.IntType {
		case "int16", "uint16", "named16":
			return 70000
		}
		return 600
	}
	return 4096
}

// genTypedInt draws an integer type and a limit at or near the boundaries of the type.
func genTypedInt(r *prng.R, c *C10Case) {
	types := []string{"int8", "uint8", "int8", "uint8", "int16", "uint16", "named16", "int32", "uint32", "int64", "uint64", "uint", "uintptr"}
	c.IntType = types[r.Intn(len(types))]
	bits := map[string]uint{"int8": 8, "uint8": 8, "int16": 16, "uint16": 16, "named16": 16, "int32": 32, "uint32": 32, "int64": 64, "uint64": 64, "uint": 64, "uintptr": 64}[c.IntType]
	signed := c.IntType[0] != 'u'
	if signed {
		max := int64(1)<<(bits-1) - 1
		vals := []int64{max, max - 1, max, 0, 1, 2, 3, -1, -max - 1, max / 2}
		c.NV = vals[r.Intn(len(vals))]
		if bits == 16 && c.NV > 300 && !r.Chance(1, 6) {
			c.NV = int64(r.Intn(5)) // complete drains of 16-bit limits are kept rare (cost)
		}
	} else {
		max := ^uint64(0) >> (64 - bits)
		vals := []uint64{max, max - 1, max, 0, 1, 2, 3, max/2 + 1, max / 2, max/2 + 2}
		c.UV = vals[r.Intn(len(vals))]
		if bits == 16 && c.UV > 300 && !r.Chance(1, 6) {
			c.UV = uint64(r.Intn(5))
		}
	}
}

func genSteps(r *prng.R, kind string, n int) []Step {
	var steps []Step
	for i := 0; i < n+2; i++ {
		st := Step{Cur: 1 + r.Intn(2)}
		for m := r.Intn(3); m > 0; m-- {
			var mu Mut
			switch kind {
			case "slice", "slice-any":
				mu = Mut{K: []MutK{MSet, MSet, MAppend, MReslice}[r.Intn(4)], I: r.Intn(n + 2), V: 100 + r.Intn(50)}
				if kind == "slice-any" && mu.K == MReslice {
					mu.K = MSet
				}
			case "map", "map-any":
				mu = Mut{K: []MutK{MSet, MDelete, MDelete}[r.Intn(3)], I: r.Intn(n + 1), V: 100 + r.Intn(50)}
				if kind == "map" && r.Chance(1, 3) {
					// entries created during the iteration (also re-created after a delete): each
					// "may be produced during the iteration or may be skipped"; several at once
					for x := 1 + r.Intn(6); x > 0; x-- {
						st.Muts = append(st.Muts, Mut{K: MInsert, I: r.Intn(n + 12), V: 100 + r.Intn(50)})
					}
				}
			case "chan":
				mu = Mut{K: []MutK{MSend, MSend, MSend, MClose}[r.Intn(4)], V: 100 + r.Intn(50)}
			default:
				continue
			}
			st.Muts = append(st.Muts, mu)
		}
		steps = append(steps, st)
	}
	return steps
}

func genC10(r *prng.R, kind string) *C10Case {
	c := &C10Case{Property: "C10", Kind: kind}
	switch kind {
	case "string":
		n := r.Intn(12)
		for i := 0; i < n; i++ {
			c.Str = append(c.Str, alphabet[r.Intn(len(alphabet))]...)
		}
		if r.Chance(1, 4) { // raw random bytes
			c.Str = nil
			for i := 0; i < n; i++ {
				c.Str = append(c.Str, byte(r.Intn(256)))
			}
		}
		c.Steps = genSteps(r, kind, len(c.Str))
	case "int":
		c.N = r.Range(-2, 6)
		c.Steps = genSteps(r, kind, 6)
	case "int-typed":
		genTypedInt(r, c)
		c.Steps = genSteps(r, kind, 4)
	case "slice", "slice-any", "map", "map-any":
		n := r.Intn(6)
		if (kind == "map" || kind == "map-any") && r.Chance(1, 3) {
			n = r.Intn(2) // single-entry maps are compared exactly
		}
		for i := 0; i < n; i++ {
			c.Elems = append(c.Elems, 10+i)
			c.Nil = append(c.Nil, r.Chance(1, 3))
		}
		c.NilKey = r.Chance(1, 3)
		c.NaNKey = r.Chance(1, 3)
		c.Cap = r.Intn(3)
		if kind == "map" && n == 0 && r.Bool() {
			c.N = -1 // nil map
		}
		c.Steps = genSteps(r, kind, n)
	case "chan-nil":
		// nothing to draw
	case "chan":
		c.Cap = 1 + r.Intn(4)
		n := r.Intn(c.Cap + 1)
		for i := 0; i < n; i++ {
			c.Elems = append(c.Elems, 10+i)
		}
		c.Closed = r.Chance(1, 4)
		c.Steps = genSteps(r, kind, 5)
	}
	return c
}

var c10Kinds = []string{"string", "int", "int-typed", "slice", "slice-any", "map", "map-any", "chan"}

func C10(j *core.Job) {
	perBatch, exhaustive := 40000, 1+24+576+13824
	if j.Thorough() {
		perBatch, exhaustive = 200000, 1+24+576+13824+331776
	}
	rep := j.Rep
	for _, k := range c10Kinds {
		rep.Count("kind_"+k, 0)
	}
	rep.Count("nan_map_keys", 0)
	rep.Count("kind_chan-nil", 0)
	for _, k := range []string{"mutator_steps_applied", "mutator_steps_applied_multi_entry_maps_order_dependent", "strings_enumerated_exhaustively", "strings_with_invalid_utf8", "map_multi_entry_invariant_oracle", "map_single_entry_exact", "nil_interface_elements"} {
		rep.Count(k, 0)
	}
	run := func(c *C10Case, sample bool) {
		class, exp, obs, at := evalC10(c)
		rep.Evals++
		rep.Count("kind_"+c.Kind, 1)
		muts := 0
		for _, e := range exp {
			if e.K == hist.Mut {
				muts++
			}
		}
		if (c.Kind == "map" || c.Kind == "map-any") && len(c.Elems) > 1 {
			// how many steps a multi-entry map run has depends on Go's random iteration order
			// (a deletion may or may not hit an entry that was visited already): this counter
			// differs between two runs of one seed, the verdict does not
			rep.Count("mutator_steps_applied_multi_entry_maps_order_dependent", muts)
		} else {
			rep.Count("mutator_steps_applied", muts)
		}
		if len(exp) >= 4 {
			b, _ := json.Marshal(c)
			rep.Nontrivial(prng.Derive(0, string(b)).Seed())
		}
		if sample {
			rep.Sample(map[string]any{"kind": c.Kind, "input": fmt.Sprintf("%q %v n=%d", c.Str, c.Elems, c.N), "steps": c.Steps, "history": exp.Strings()}, 5)
		}
		if class != "" && len(rep.Violations) < maxViolationsPerWorker {
			c.Class, c.Expected, c.Observed, c.DiffAt = class, exp.Strings(), obs.Strings(), at
			c = shrinkC10(c)
			path := ev.WriteReplay("C10", int64(c.Seed), c.Batch*100000+c.Index, c)
			rep.Violations = append(rep.Violations, ev.Violation{Prop: "C10", Class: c.Class, Replay: path})
		}
	}
	for _, b := range j.Batches {
		// one range over a nil channel per batch (each leaks a goroutine parked forever)
		nc := &C10Case{Property: "C10", Kind: "chan-nil", Seed: j.Seed, Batch: b, Index: 49999}
		if class, exp, obs, at := evalC10(nc); true {
			rep.Evals++
			rep.Count("kind_chan-nil", 1)
			if class != "" && len(rep.Violations) < maxViolationsPerWorker {
				nc.Class, nc.Expected, nc.Observed, nc.DiffAt = class, exp.Strings(), obs.Strings(), at
				path := ev.WriteReplay("C10", int64(nc.Seed), nc.Batch*100000+nc.Index, nc)
				rep.Violations = append(rep.Violations, ev.Violation{Prop: "C10", Class: nc.Class, Replay: path})
			}
		}
		// exhaustive share of the string space: strings n with n % totalBatches == b
		total := j.TotalBatches()
		for n := b; n < exhaustive; n += total {
			s, _ := nthString(n)
			c := &C10Case{Property: "C10", Kind: "string", Str: s, Seed: j.Seed, Batch: b, Index: 50000 + n}
			run(c, false)
			rep.Count("strings_enumerated_exhaustively", 1)
		}
		for i := 0; i < perBatch; i++ {
			r := prng.Derive(j.Seed, "C10", b, i)
			kind := c10Kinds[r.Intn(len(c10Kinds))]
			c := genC10(r, kind)
			c.Seed, c.Batch, c.Index = j.Seed, b, i
			for _, n := range c.Nil {
				if n {
					rep.Count("nil_interface_elements", 1)
				}
			}
			if c.NaNKey && kind == "map-any" && len(c.Elems) > 1 {
				rep.Count("nan_map_keys", 1)
			}
			if kind == "map" || kind == "map-any" {
				if len(c.Elems) > 1 {
					rep.Count("map_multi_entry_invariant_oracle", 1)
				} else {
					rep.Count("map_single_entry_exact", 1)
				}
			}
			run(c, i < 7 && b == j.Batches[0])
		}
	}
}

// shrinkC10 drops steps/mutations/elements while the class persists.
func shrinkC10(c *C10Case) *C10Case {
	cl := func(x *C10Case) *C10Case {
		b, _ := json.Marshal(x)
		var d C10Case
		json.Unmarshal(b, &d)
		return &d
	}
	try := func(d *C10Case) bool {
		class, exp, obs, at := evalC10(d)
		if class == c.Class {
			d.Class, d.Expected, d.Observed, d.DiffAt = class, exp.Strings(), obs.Strings(), at
			c = d
			return true
		}
		return false
	}
	for changed := true; changed; {
		changed = false
		for i := range c.Steps {
			if len(c.Steps[i].Muts) > 0 {
				d := cl(c)
				d.Steps[i].Muts = d.Steps[i].Muts[:len(d.Steps[i].Muts)-1]
				if try(d) {
					changed = true
				}
			}
		}
		if len(c.Steps) > 0 {
			d := cl(c)
			d.Steps = d.Steps[:len(d.Steps)-1]
			if try(d) {
				changed = true
			}
		}
		if len(c.Str) > 0 {
			for _, cut := range []int{0, len(c.Str) - 1} {
				d := cl(c)
				d.Str = append(append([]byte{}, c.Str[:cut]...), c.Str[cut+1:]...)
				if try(d) {
					changed = true
					break
				}
			}
		}
		if len(c.Elems) > 0 {
			d := cl(c)
			d.Elems = d.Elems[:len(d.Elems)-1]
			if len(d.Nil) > len(d.Elems) {
				d.Nil = d.Nil[:len(d.Elems)]
			}
			if try(d) {
				changed = true
			}
		}
	}
	return c
}

// ReplayC10 re-executes a stored C10 case.
func ReplayC10(id, path string) int {
	b, err := os.ReadFile(path)
	if err != nil {
		fmt.Fprintln(os.Stderr, "INFRASTRUCTURE-FAILURE:", err)
		return 2
	}
	var c C10Case
	if err := json.Unmarshal(b, &c); err != nil {
		fmt.Fprintln(os.Stderr, "INFRASTRUCTURE-FAILURE:", err)
		return 2
	}
	class, exp, obs, at := evalC10(&c)
	if class == "" {
		fmt.Println("REPLAY-PASSED property=C10 (the stored case no longer violates the property)")
		return 0
	}
	if class != c.Class {
		fmt.Printf("REPLAY-DIVERGED property=C10 stored=%q now=%q\n", c.Class, class)
		return 2
	}
	fmt.Printf("VIOLATION property=C10 replay=%s\n  class: %s\n  expected[%d]: %s\n  observed[%d]: %s\n", path, class, at, exp.At(at), at, obs.At(at))
	return 1
}
