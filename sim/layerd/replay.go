package layerd

import (
	"encoding/json"
	"fmt"
	"os"
)

// Replay of a disk-layer violation re-runs the whole (deterministic) case it came from: the
// batch number and seed are stored in the document; the tool-run history is rebuilt from them.
func Replay(id, path string) int {
	data, err := os.ReadFile(path)
	if err != nil {
		fmt.Fprintln(os.Stderr, "INFRASTRUCTURE-FAILURE:", err)
		return 2
	}
	var doc struct {
		Property string
		Seed     uint64
		Batch    int
		Class    string
	}
	if err := json.Unmarshal(data, &doc); err != nil {
		fmt.Fprintln(os.Stderr, "INFRASTRUCTURE-FAILURE:", err)
		return 2
	}
	classes := RerunBatch(doc.Property, doc.Seed, doc.Batch)
	if len(classes) == 0 {
		fmt.Printf("REPLAY-PASSED property=%s (the stored case no longer violates the property)\n", doc.Property)
		return 0
	}
	for _, c := range classes {
		if len(c) >= len(doc.Class) && c[:len(doc.Class)] == doc.Class {
			fmt.Printf("VIOLATION property=%s replay=%s\n  class: %s\n", doc.Property, path, c)
			return 1
		}
	}
	fmt.Printf("REPLAY-DIVERGED property=%s stored=%q now=%q\n", doc.Property, doc.Class, classes[0])
	return 2
}
