package gen

import (
	"fmt"
	"strings"

	"verif/sim/prng"
)

type vkind int

const (
	vInt    vkind = iota // mutable int
	vRO                  // read-only int (loop counters, parameters of bounded recursion)
	vFnInt               // func() int
	vFnVoid              // func()
	vGenLit              // func(int) Iter[int]
	vIter                // Iter[int] value
	vSlice               // []int
	vArr                 // [3]int
	vMap                 // map[int]int
	vStr                 // string
	vChan                // chan int (closed or to be closed)
	vAny                 // any
)

type scope struct {
	up    *scope
	names map[string]vkind
	order []string
}

func (s *scope) child() *scope { return &scope{up: s, names: map[string]vkind{}} }

func (s *scope) declare(name string, k vkind) {
	if _, ok := s.names[name]; !ok {
		s.order = append(s.order, name)
	}
	s.names[name] = k
}

func (s *scope) here(name string) bool { _, ok := s.names[name]; return ok }

// visible returns the names whose innermost binding has one of the kinds, in a
// deterministic order (outermost scope first, declaration order).
func (s *scope) visible(kinds ...vkind) []string {
	var chain []*scope
	for c := s; c != nil; c = c.up {
		chain = append(chain, c)
	}
	seen := map[string]bool{}
	var out []string
	// innermost binding wins: walk inner to outer to decide, then order outer to inner
	bind := map[string]vkind{}
	for _, c := range chain {
		for _, n := range c.order {
			if !seen[n] {
				seen[n] = true
				bind[n] = c.names[n]
			}
		}
	}
	emitted := map[string]bool{}
	for i := len(chain) - 1; i >= 0; i-- {
		for _, n := range chain[i].order {
			if emitted[n] {
				continue
			}
			emitted[n] = true
			for _, k := range kinds {
				if bind[n] == k {
					out = append(out, n)
				}
			}
		}
	}
	return out
}

// Cfg is the swarm configuration of one batch.
type Cfg struct {
	Profile  string
	W        map[SK]int
	MaxDepth int
	MaxStmts int
	ForForm  [5]int // weights of the loop forms (A three-clause, B cond-only, C infinite+exit, D infinite yielding, E yielding init/post)
	EffPct   int    // chance of wrapping an expression in vrt.V / a condition in vrt.B
	DeadPct  int    // chance of emitting dead code after a terminator
	ElsePct  int
	Quar     map[string]bool // quarantined known-finding shapes (never generated)
	Closures bool
	GenLits  bool
	Deleg    bool // YieldFrom / calls of other generators
	Consume  bool // consumer loops inside functions
	Ranges   bool
	TypeSw   bool
	NFuncs   int
	NFiles   int
	PlainPct int    // share of plain (non-generator) consumer functions
	Prefix   string // prefix of generated function and file names
	NoHelp   bool   // do not emit the helper declarations (another program of the same package has them)
	OptFile  string // file name of the optimiser templates (default gen_opt.go; C15 makes it sort first)
	Tick     bool   // expressions may call the helper tick() of the plain helper file
}

type G struct {
	r           *prng.R
	cfg         Cfg
	prog        *Prog
	tag         int
	sid         int
	funcs       []*Func // generated so far (callable by later ones)
	feat        map[string]bool
	needPick    bool
	needHelpers bool
	topCtr      int  // function-level loop counters c0, c1, ... declared at the top of the body
	varStyle    bool // this function declares its int locals with var, never with :=
}

type fctx struct {
	g                *G
	gen              bool
	elem             string
	named            bool
	nilRet           bool
	loops            int
	sws              int
	depth            int
	sc               *scope
	left             *int
	plainRet         string // result type of the enclosing plain function literal / plain function ("" void)
	inLit            bool
	dead             bool // generating unreachable statements (after break/continue/return)
	innerSwitchYield bool
}

func (g *G) nextTag() int  { g.tag++; return g.tag }
func (g *G) id() int       { g.sid++; return g.sid }
func (g *G) mark(f string) { g.feat[f] = true }

var (
	intPool  = []string{"x", "y", "z", "w", "u"}
	ctrPool  = []string{"i", "j", "k", "n"}
	fnPool   = []string{"f", "g", "h"}
	parmPool = []string{"a", "b", "c"}
)

func (c *fctx) fresh(pool []string) string {
	// prefer names not declared in this very scope (re-declaration in one scope is invalid Go);
	// shadowing of outer names is allowed and frequent (small pools)
	var cand []string
	for _, n := range pool {
		if !c.sc.here(n) {
			cand = append(cand, n)
		}
	}
	if len(cand) == 0 {
		for i := 0; ; i++ {
			n := fmt.Sprintf("%s%d", pool[0], i)
			if !c.sc.here(n) {
				return n
			}
		}
	}
	return cand[c.g.r.Intn(len(cand))]
}

func lit(n int) *X                 { return &X{K: XLit, Lit: n} }
func v(name string) *X             { return &X{K: XVar, Name: name} }
func bin(a *X, op string, b *X) *X { return &X{K: XBin, A: a, Op: op, B: b} }

// atom: literal or visible int variable
func (c *fctx) atom() *X {
	vars := c.sc.visible(vInt, vRO)
	if len(vars) > 0 && c.g.r.Chance(2, 3) {
		return v(vars[c.g.r.Intn(len(vars))])
	}
	return lit(c.g.r.Range(0, 5))
}

// pure int expression (no calls)
func (c *fctx) pure(depth int) *X {
	r := c.g.r
	if depth <= 0 || r.Chance(1, 2) {
		return c.atom()
	}
	switch r.Intn(5) {
	case 0:
		return bin(c.pure(depth-1), "+", c.pure(depth-1))
	case 1:
		return bin(c.pure(depth-1), "-", c.atom())
	case 2:
		return bin(c.atom(), "*", lit(r.Range(2, 3)))
	case 3:
		return bin(c.pure(depth-1), "%", lit(r.Range(2, 4)))
	default:
		return bin(c.pure(depth-1), "+", lit(r.Range(1, 9)))
	}
}

// expr: an int expression with at most one call chain (so Go's evaluation order is fixed)
func (c *fctx) expr() *X {
	r := c.g.r
	if c.g.cfg.Closures && r.Chance(1, 8) {
		if fs := c.sc.visible(vFnInt); len(fs) > 0 {
			call := &X{K: XCall, Name: fs[r.Intn(len(fs))]}
			c.g.mark("closure_call")
			if r.Intn(100) < c.g.cfg.EffPct {
				return &X{K: XV, Tag: c.g.nextTag(), A: call}
			}
			return call
		}
	}
	if c.g.cfg.Tick && r.Chance(1, 6) {
		// a call of a package-level helper declared in a plain sibling file (the optimise stage
		// reloads the rewritten files only, so it does not know this callee)
		c.g.mark("call_of_helper_from_plain_file")
		var a *X = lit(r.Range(0, 5))
		if r.Chance(1, 3) {
			a = c.pure(1)
		}
		return &X{K: XCall, Name: "tick", Args: []*X{a}}
	}
	if c.g.cfg.Closures && r.Chance(1, 10) {
		// a function literal called on the spot, reading (or updating) variables in scope:
		// their references must keep denoting the same variables wherever the expression
		// ends up (a continuation thunk, a loop's post function, a Delay)
		c.g.mark("immediately_invoked_literal_in_expression")
		if ws := c.sc.visible(vInt); len(ws) > 0 && r.Bool() {
			w := ws[r.Intn(len(ws))]
			return &X{K: XRaw, S: fmt.Sprintf("func() int { %s += %d; return %s }()", w, r.Range(1, 3), w)}
		}
		return &X{K: XRaw, S: "func() int { return " + c.pure(1).str(Mode{}) + " }()"}
	}
	e := c.pure(2)
	if r.Intn(100) < c.g.cfg.EffPct {
		return &X{K: XV, Tag: c.g.nextTag(), A: e}
	}
	return e
}

func (c *fctx) cond() *X {
	r := c.g.r
	var e *X
	switch r.Intn(5) {
	case 0:
		e = bin(c.pure(1), "<", c.pure(1))
	case 1:
		e = bin(c.pure(1), "==", lit(r.Range(0, 3)))
	case 2:
		e = bin(bin(c.atom(), "%", lit(2)), "==", lit(r.Intn(2)))
	case 3:
		e = bin(c.atom(), ">", lit(r.Range(0, 3)))
	default:
		e = bin(c.pure(1), "!=", c.atom())
	}
	if r.Intn(100) < c.g.cfg.EffPct {
		return &X{K: XB, Tag: c.g.nextTag(), A: e}
	}
	return e
}

func (c *fctx) eff() *S {
	vars := c.sc.visible(vInt, vRO)
	s := &S{K: SEff, ID: c.g.id(), Tag: c.g.nextTag()}
	n := c.g.r.Intn(4)
	for _, i := range c.g.r.Perm(len(vars)) {
		if n == 0 {
			break
		}
		s.Reads = append(s.Reads, vars[i])
		n--
	}
	return s
}

func (c *fctx) sub() *fctx {
	d := *c
	d.sc = c.sc.child()
	d.depth = c.depth + 1
	return &d
}

// block generates up to n statements in a fresh scope.
func (c *fctx) block(n int) []*S {
	return c.sub().stmts(n)
}

func (c *fctx) stmts(n int) []*S {
	var out []*S
	for i := 0; i < n && *c.left > 0; i++ {
		s := c.stmt()
		if s == nil {
			continue
		}
		out = append(out, s...)
		last := s[len(s)-1]
		if last.K == SBreak || last.K == SContinue || last.K == SReturn {
			if c.g.r.Intn(100) < c.g.cfg.DeadPct {
				c.g.mark("dead_code_after_terminator")
				c.dead = true
				continue
			}
			break
		}
	}
	if len(out) == 0 {
		out = append(out, c.eff())
	}
	return out
}

func (c *fctx) pickKind() SK {
	cfg := c.g.cfg
	kinds := []SK{SDecl, SAssign, SIncDec, SEff, SYield, SBlock, SIf, SSwitch, STypeSwitch, SFor, SBreak, SContinue, SReturn, SFuncLit, SYieldFrom, SRange, SExpr}
	ws := make([]int, len(kinds))
	for i, k := range kinds {
		wt := cfg.W[k]
		switch k {
		case SYield:
			if !c.gen {
				wt = 0
			}
		case SYieldFrom:
			if !c.gen || !cfg.Deleg {
				wt = 0
			}
		case SBreak:
			if c.loops == 0 && c.sws == 0 {
				wt = 0
			}
		case SContinue:
			if c.loops == 0 {
				wt = 0
			}
		case SBlock, SIf, SSwitch, STypeSwitch, SFor, SFuncLit, SRange:
			if c.depth >= cfg.MaxDepth {
				wt = 0
			}
			if k == STypeSwitch && !cfg.TypeSw {
				wt = 0
			}
			if k == SFuncLit && !cfg.Closures && !cfg.GenLits {
				wt = 0
			}
			if k == SRange && !cfg.Ranges && !cfg.Consume {
				wt = 0
			}
		case SAssign, SIncDec:
			if len(c.sc.visible(vInt)) == 0 {
				wt = 0
			}
		case SExpr:
			if len(c.sc.visible(vFnVoid)) == 0 {
				wt = 0
			}
		}
		ws[i] = wt
	}
	tot := 0
	for _, x := range ws {
		tot += x
	}
	if tot == 0 {
		return SEff
	}
	return kinds[c.g.r.Pick(ws)]
}

func (c *fctx) stmt() []*S {
	r := c.g.r
	*c.left--
	k := c.pickKind()
	switch k {
	case SDecl:
		// 'p, q := e1, e2' re-using a variable declared in this very block
		if !c.g.varStyle && r.Chance(1, 5) {
			var here []string
			for _, n := range c.sc.order {
				if c.sc.names[n] == vInt {
					here = append(here, n)
				}
			}
			if len(here) > 0 {
				old := here[r.Intn(len(here))]
				name := c.fresh(intPool)
				e1, e2 := c.pure(1).str(Mode{}), c.pure(1).str(Mode{})
				variant := r.Intn(5)
				if variant == 4 {
					variant = 0
				}
				switch variant {
				case 0:
					// the operand assigned to the re-used variable is an OUTER variable whose
					// name the statement declares anew: 'p, n := n, e'
					var outer []string
					for _, n := range c.sc.visible(vInt, vRO) {
						// parameters share the scope of the function body in Go: never re-declare them
						if !c.sc.here(n) && n != "a" && n != "b" && n != "c" && n != "p" {
							outer = append(outer, n)
						}
					}
					if len(outer) > 0 {
						name = outer[r.Intn(len(outer))]
						e1 = name
						c.g.mark("define_reusing_operand_names_the_new_variable")
					}
				case 1:
					// the same with a package-level constant: 'p, kq := kq, e'
					if !c.sc.here("kq") {
						name, e1 = "kq", "kq"
						c.g.needHelpers = true
						c.g.mark("define_reusing_constant_operand_shadowed_by_the_new_variable")
					}
				case 2:
					// an untyped boolean operand assigned to a re-used variable of a named type,
					// declared before a yield of the same block
					if c.gen {
						fl := c.fresh([]string{"fl", "fl2"})
						yielded := c.expr() // drawn before the new variable is in scope
						c.sc.declare(fl, vAny)
						c.sc.declare(name, vInt)
						c.g.needHelpers = true
						c.g.mark("define_reusing_named_bool_untyped_operand")
						return []*S{
							{K: SRaw, ID: c.g.id(), Src: fmt.Sprintf("var %s flag", fl)},
							{K: SYield, ID: c.g.id(), E: yielded},
							{K: SRaw, ID: c.g.id(), Src: fmt.Sprintf("%s, %s := %s < %s, %s\nif %s {\n\tvrt.E(%d, %s)\n}", fl, name, e1, e2, e2, fl, c.g.nextTag(), name)},
						}
					}
				}
				c.sc.declare(name, vInt)
				c.g.mark("define_reusing_a_variable_of_the_block")
				text := fmt.Sprintf("%s, %s := %s, %s\n_ = %s", old, name, e1, e2, name)
				if r.Bool() {
					text = fmt.Sprintf("%s, %s := %s, %s\n_ = %s", name, old, e2, e1, name)
				}
				if r.Chance(2, 3) {
					// observe both variables right away
					text += fmt.Sprintf("\nvrt.E(%d, %s, %s)", c.g.nextTag(), old, name)
				}
				return []*S{{K: SRaw, ID: c.g.id(), Src: text}}
			}
		}
		name := c.fresh(intPool)
		e := c.expr()
		c.sc.declare(name, vInt)
		d := &S{K: SDecl, ID: c.g.id(), Name: name, E: e}
		if c.g.varStyle || r.Chance(1, 8) {
			d.Type = "int" // var name int = e
			c.g.mark("var_declaration_form")
		}
		return []*S{d}
	case SAssign:
		vars := c.sc.visible(vInt)
		return []*S{{K: SAssign, ID: c.g.id(), Name: vars[r.Intn(len(vars))], Op: []string{"=", "+=", "-="}[r.Intn(3)], E: c.expr()}}
	case SIncDec:
		vars := c.sc.visible(vInt)
		return []*S{{K: SIncDec, ID: c.g.id(), Name: vars[r.Intn(len(vars))], Op: []string{"++", "--"}[r.Intn(2)]}}
	case SEff:
		return []*S{c.eff()}
	case SYield:
		return []*S{{K: SYield, ID: c.g.id(), E: c.expr()}}
	case SBlock:
		c.g.mark("nested_block")
		return []*S{{K: SBlock, ID: c.g.id(), Body: c.block(1 + r.Intn(3))}}
	case SIf:
		return []*S{c.ifStmt(0)}
	case SSwitch:
		return []*S{c.switchStmt()}
	case STypeSwitch:
		return []*S{c.typeSwitch()}
	case SFor:
		return c.forStmt()
	case SBreak:
		if c.loops == 0 {
			c.g.mark("break_in_switch")
		}
		return []*S{{K: SBreak, ID: c.g.id()}}
	case SContinue:
		return []*S{{K: SContinue, ID: c.g.id()}}
	case SReturn:
		return []*S{c.ret()}
	case SFuncLit:
		if r.Chance(1, 6) {
			// a three-clause loop INSIDE A PLAIN CLOSURE whose variable is captured by closures
			// that outlive the iteration: the compiler has no business in a plain closure, so
			// the loop keeps Go's per-iteration variables (the scratch module says go 1.23)
			id := c.g.id()
			obs := fmt.Sprintf("vrt.E(%d, f%d())", c.g.nextTag(), id)
			if c.gen && !c.inLit && r.Bool() {
				obs = fmt.Sprintf("«Yield»(f%d())", id)
			}
			text := fmt.Sprintf("fs%[1]d := func() []func() int {\n\tvar fs []func() int\n\tfor i := 0; i < 3; i++ {\n\t\tfs = append(fs, func() int { return i*10 + %[2]d })\n\t}\n\treturn fs\n}()\nfor _, f%[1]d := range fs%[1]d {\n\t%[3]s\n}", id, r.Range(1, 5), obs)
			c.g.mark("three_clause_loop_variable_captured_inside_a_plain_closure")
			return []*S{{K: SRaw, ID: id, Src: text}}
		}
		return c.funcLit()
	case SYieldFrom:
		return c.yieldFrom()
	case SRange:
		return c.rangeStmt()
	case SExpr:
		fs := c.sc.visible(vFnVoid)
		c.g.mark("void_closure_call")
		return []*S{{K: SExpr, ID: c.g.id(), E: &X{K: XCall, Name: fs[r.Intn(len(fs))]}}}
	}
	return []*S{c.eff()}
}

func (c *fctx) ret() *S {
	if c.gen {
		c.g.mark("return_in_generator")
		if c.loops > 0 {
			c.g.mark("return_inside_loop")
		}
		return &S{K: SReturn, ID: c.g.id(), Nil: c.nilRet}
	}
	if c.plainRet == "" {
		return &S{K: SReturn, ID: c.g.id()}
	}
	return &S{K: SReturn, ID: c.g.id(), E: c.pure(1)}
}

func (c *fctx) ifStmt(chain int) *S {
	r := c.g.r
	s := &S{K: SIf, ID: c.g.id()}
	d := c.sub()
	if r.Chance(1, 8) {
		// non-yielding initialiser (a yield there is C12's unsupported construct)
		name := d.fresh(intPool)
		s.Init = &S{K: SDecl, Name: name, E: c.pure(1)}
		d.sc.declare(name, vInt)
		s.E = bin(v(name), []string{"<", ">", "=="}[r.Intn(3)], d.pure(1))
		c.g.mark("if_with_init")
	} else {
		s.E = c.cond()
	}
	s.Body = d.block(1 + r.Intn(3))
	if r.Intn(100) < c.g.cfg.ElsePct {
		if chain < 2 && r.Chance(1, 3) {
			s.ElsIf = true
			s.Else = []*S{d.ifStmt(chain + 1)}
			c.g.mark("else_if_chain")
		} else {
			s.Else = d.block(1 + r.Intn(3))
		}
	}
	return s
}

func (c *fctx) caseBody() []*S {
	d := c.sub()
	d.sws++
	return d.stmts(1 + c.g.r.Intn(3))
}

func (c *fctx) switchStmt() *S {
	r := c.g.r
	s := &S{K: SSwitch, ID: c.g.id()}
	d := c.sub()
	tagless := r.Chance(1, 4)
	if r.Chance(1, 6) {
		name := d.fresh(intPool)
		s.Init = &S{K: SDecl, Name: name, E: c.pure(1)}
		d.sc.declare(name, vInt)
		c.g.mark("switch_with_init")
		if !tagless {
			s.E = v(name)
		}
	}
	if !tagless && s.E == nil {
		s.E = c.expr()
	}
	if tagless {
		c.g.mark("tagless_switch")
	}
	n := 1 + r.Intn(3)
	vals := r.Perm(5)
	def := -1
	if r.Chance(2, 3) {
		def = r.Intn(n + 1)
	} else {
		c.g.mark("switch_without_default")
	}
	for i := 0; i <= n; i++ {
		if i == def {
			s.Cases = append(s.Cases, &Case{Default: true, Body: d.caseBody()})
			continue
		}
		if i == n && def != n {
			break
		}
		cs := &Case{}
		if tagless {
			cs.Vals = []*X{d.cond()}
		} else {
			cs.Vals = []*X{lit(vals[i%5])}
			if r.Chance(1, 5) && i+1 < 5 && n < 3 {
				cs.Vals = append(cs.Vals, lit(5+i))
			}
		}
		cs.Body = d.caseBody()
		if r.Chance(1, 7) {
			// an EMPTY clause: the value is matched and nothing happens (it must not fall
			// to default)
			cs.Body = nil
			c.g.mark("switch_with_empty_clause")
		}
		s.Cases = append(s.Cases, cs)
	}
	if tagless && s.Init != nil {
		s.Cases[0].Body = append([]*S{{K: SUse, Name: s.Init.Name}}, s.Cases[0].Body...)
	}
	return s
}

func (c *fctx) typeSwitch() *S {
	r := c.g.r
	c.g.needPick = true
	s := &S{K: STypeSwitch, ID: c.g.id()}
	s.E = &X{K: XCall, Name: "pick", Args: []*X{c.pure(1)}}
	d := c.sub()
	bind := r.Chance(1, 2)
	if bind {
		s.Name = d.fresh([]string{"t", "q"})
		c.g.mark("type_switch_binding")
	}
	types := [][]string{{"int"}, {"string"}, {"nil"}, {"int", "string"}}
	order := r.Perm(3)
	n := 1 + r.Intn(3)
	def := -1
	if r.Chance(1, 2) {
		def = r.Intn(n + 1)
	}
	for i := 0; i <= n; i++ {
		if i == def {
			e := d.sub()
			e.sws++
			if bind {
				e.sc.declare(s.Name, vAny)
			}
			s.Cases = append(s.Cases, &Case{Default: true, Body: e.stmts(1 + r.Intn(3))})
			continue
		}
		if i == n && def != n {
			break
		}
		ts := types[order[i%3]]
		cs := &Case{Types: ts}
		e := d.sub()
		e.sws++
		if bind && len(ts) == 1 && ts[0] == "int" {
			// the binding is an int in this clause: make it readable
			e.sc.declare(s.Name, vRO)
		} else if bind {
			e.sc.declare(s.Name, vAny) // shadows an outer int binding of the same name
		}
		cs.Body = e.stmts(1 + r.Intn(2))
		s.Cases = append(s.Cases, cs)
	}
	return s
}

// forStmt returns the loop (and, for forms that need it, the counter declaration before it).
func (c *fctx) forStmt() []*S {
	r := c.g.r
	cfg := c.g.cfg
	form := r.Pick(cfg.ForForm[:])
	if form == 3 && !c.gen {
		form = 0
	}
	hi := func() *X {
		ps := c.sc.visible(vRO, vInt)
		if len(ps) > 0 && r.Chance(1, 2) {
			// bounded by construction: parameters and locals are small; cap with a modulus
			return bin(bin(v(ps[r.Intn(len(ps))]), "%", lit(4)), "+", lit(r.Intn(2)))
		}
		return lit(r.Range(0, 4))
	}
	d := c.sub()
	d.loops++
	d.sws = 0
	ctr := d.fresh(ctrPool)
	if form != 0 {
		ctr = c.fresh(ctrPool) // declared in the enclosing block, before the loop
	}
	loop := &S{K: SFor, ID: c.g.id()}
	nb := 1 + r.Intn(4)
	switch form {
	case 0: // for i := lo; i < hi; i++ { body }
		loop.Init = &S{K: SDecl, Name: ctr, E: lit(r.Intn(2))}
		d.sc.declare(ctr, vRO)
		loop.E = bin(v(ctr), "<", hi())
		loop.Post = &S{K: SIncDec, Name: ctr, Op: "++"}
		if c.gen && !c.inLit && c.depth < c.g.cfg.MaxDepth-1 && r.Chance(1, 3) {
			loop.Body = append(d.initlessLoop(1+r.Intn(2)), d.block(nb)...)
			c.g.mark("initless_loop_first_in_loop_body")
		} else {
			loop.Body = d.block(nb)
		}
		if c.gen && !c.inLit && r.Chance(1, 5) {
			// the body STARTS with a switch whose case yields and then breaks out of the switch
			// (nothing in front of it: after the optimiser the switch is one value that every
			// iteration runs again); later iterations must enter the switch like the first
			var after *S = &S{K: SYield, ID: c.g.id(), E: bin(v(ctr), "+", lit(r.Range(30, 40)))}
			if c.g.cfg.Deleg && r.Bool() {
				if ys := c.yieldFromX(false); len(ys) == 1 && ys[0].K == SYieldFrom {
					after = ys[0]
				}
			}
			mod := 2 + r.Intn(2)
			sw := &S{K: SSwitch, ID: c.g.id(), E: bin(v(ctr), "%", lit(mod)), Cases: []*Case{
				{Vals: []*X{lit(0)}, Body: []*S{{K: SYield, ID: c.g.id(), E: bin(v(ctr), "+", lit(r.Range(10, 20)))},
					{K: SIf, ID: c.g.id(), E: bin(v(ctr), "<", lit(r.Range(0, 3))), Body: []*S{{K: SBreak, ID: c.g.id()}}}, after}},
				{Default: true, Body: []*S{{K: SYield, ID: c.g.id(), E: bin(v(ctr), "+", lit(r.Range(20, 30)))}, {K: SBreak, ID: c.g.id()}}},
			}}
			if mod == 3 {
				// a continue of the LOOP from inside the same switch: the rest of the iteration is skipped
				sw.Cases = append(sw.Cases[:1:1], &Case{Vals: []*X{lit(2)}, Body: []*S{{K: SContinue, ID: c.g.id()}}}, sw.Cases[1])
			}
			loop.Body = append([]*S{sw}, loop.Body...)
			c.g.mark("loop_body_starts_with_a_switch_left_by_break_after_a_yield")
		} else if c.gen && !c.inLit && r.Chance(1, 5) {
			// the ONLY break of a yielding switch sits, together with the yield in front of it, in
			// an if of a clause: it leaves the switch, the statements behind the switch and the
			// later iterations still run
			id := c.g.id()
			text := fmt.Sprintf("switch {\ncase %[1]s%%2 == 0:\n\tif %[1]s >= 0 {\n\t\t«Yield»(%[1]s + 50)\n\t\tbreak\n\t}\n\tvrt.E(%[2]d, %[1]s)\ndefault:\n\tvrt.E(%[3]d, %[1]s)\n}\nvrt.E(%[4]d, %[1]s)", ctr, c.g.nextTag(), c.g.nextTag(), c.g.nextTag())
			loop.Body = append([]*S{{K: SRaw, ID: id, Src: text}}, loop.Body...)
			c.g.mark("only_break_of_a_yielding_switch_nested_with_its_yield_in_an_if")
		}
		if r.Chance(1, 4) {
			// the loop variable is written ONLY through a closure created in the body and
			// called within the same iteration: condition and post must see the update
			id := c.g.id()
			bump := fmt.Sprintf("bump%d := func() { %s += 1 }\nif (%s %% 2) == %d {\n\tbump%d()\n}", id, ctr, ctr, r.Intn(2), id)
			pos := r.Intn(len(loop.Body) + 1)
			for pos > 0 && (loop.Body[pos-1].K == SBreak || loop.Body[pos-1].K == SContinue || loop.Body[pos-1].K == SReturn) {
				pos--
			}
			loop.Body = append(loop.Body[:pos:pos], append([]*S{{K: SRaw, ID: id, Src: bump}}, loop.Body[pos:]...)...)
			c.g.mark("loop_variable_written_only_through_a_closure_of_the_body")
		}
		c.g.mark("for_three_clause")
		return []*S{loop}
	case 1: // i := lo; for i < hi { i++; body }
		c.sc.declare(ctr, vRO)
		decl := &S{K: SDecl, ID: c.g.id(), Name: ctr, E: lit(r.Intn(2))}
		loop.E = bin(v(ctr), "<", hi())
		loop.Body = append([]*S{{K: SIncDec, Name: ctr, Op: "++"}}, d.block(nb)...)
		c.g.mark("for_cond_only")
		return []*S{decl, loop}
	case 2: // i := lo; for { if i >= hi { break|return }; i++; body }
		if r.Chance(1, 3) {
			// three-clause loop without a condition: for i := lo; ; i++ { if i >= hi { break }; body }
			d.sc.declare(ctr, vRO)
			loop.Init = &S{K: SDecl, Name: ctr, E: lit(r.Intn(2))}
			loop.Post = &S{K: SIncDec, Name: ctr, Op: "++"}
			guard := &S{K: SIf, ID: c.g.id(), E: bin(v(ctr), ">=", hi()), Body: []*S{{K: SBreak}}}
			loop.Body = append([]*S{guard}, d.block(nb)...)
			c.g.mark("for_three_clause_without_condition")
			return []*S{loop}
		}
		if c.gen && !c.inLit && r.Chance(1, 3) {
			return c.initlessLoop(nb)
		}
		c.sc.declare(ctr, vRO)
		decl := &S{K: SDecl, ID: c.g.id(), Name: ctr, E: lit(r.Intn(2))}
		exit := &S{K: SBreak}
		if c.gen && r.Chance(1, 4) {
			exit = &S{K: SReturn, Nil: c.nilRet}
		} else if !c.gen {
			exit = &S{K: SBreak}
		}
		guard := &S{K: SIf, ID: c.g.id(), E: bin(v(ctr), ">=", hi()), Body: []*S{exit}}
		loop.Body = append([]*S{guard, {K: SIncDec, Name: ctr, Op: "++"}}, d.block(nb)...)
		c.g.mark("for_infinite_with_exit")
		return []*S{decl, loop}
	case 3: // for { Yield(e); body }   — infinite generator, the consumer truncates
		loop.Body = append([]*S{{K: SYield, ID: c.g.id(), E: c.expr()}}, d.block(nb)...)
		c.g.mark("for_infinite_yielding")
		c.g.feat["INF"] = true
		return []*S{loop}
	default: // yielding / effectful init and post around a counter advanced in the body
		c.sc.declare(ctr, vRO)
		decl := &S{K: SDecl, ID: c.g.id(), Name: ctr, E: lit(r.Intn(2))}
		if c.gen && !c.inLit && c.g.cfg.Deleg && r.Chance(1, 4) {
			// the post delegates to an iterator VARIABLE declared before the loop (advanced by
			// hand first, sometimes) whose name the body re-declares at its top level; the body
			// neither yields nor continues
			outer, inner := c.iterExpr(), c.iterExpr()
			if outer != nil && inner != nil && outer.K == XIterCall && inner.K == XIterCall {
				it := c.fresh([]string{"it", "it2", "it3"})
				c.sc.declare(it, vIter)
				pre := []*S{decl, {K: SDecl, ID: c.g.id(), Name: it, E: outer}}
				if r.Bool() {
					pre = append(pre, &S{K: SRaw, ID: c.g.id(), Src: fmt.Sprintf("if %s.MoveNext() {\n\tvrt.E(%d, %s.Current())\n}", it, c.g.nextTag(), it)})
				}
				loop.E = bin(v(ctr), "<", lit(r.Range(1, 3)))
				loop.Post = &S{K: SYieldFrom, E: v(it)}
				// (plain statements only: a body that ends in an if is combined with the post
				// differently)
				loop.Body = []*S{{K: SIncDec, Name: ctr, Op: "++"}, {K: SDecl, ID: c.g.id(), Name: it, E: inner},
					{K: SRaw, ID: c.g.id(), Src: fmt.Sprintf("_ = %s.MoveNext()\nvrt.E(%d, %s.Current())", it, c.g.nextTag(), it)}}
				if r.Chance(1, 3) {
					loop.Body = append(loop.Body, &S{K: SRaw, ID: c.g.id(), Src: fmt.Sprintf("if %s.MoveNext() {\n\tvrt.E(%d, %s.Current())\n}", it, c.g.nextTag(), it)})
				}
				c.g.mark("for_post_yieldfrom_of_variable_shadowed_in_body")
				return append(pre, loop)
			}
		}
		simple := func() *S {
			switch {
			case c.gen && c.g.cfg.Deleg && r.Chance(1, 4) && !(c.dead && c.g.cfg.Quar["A16"]):
				if ys := c.yieldFromX(false); len(ys) == 1 && ys[0].K == SYieldFrom {
					c.g.mark("yieldfrom_in_for_init_or_post")
					return ys[0]
				}
				return &S{K: SYield, E: c.expr()}
			case c.gen && r.Chance(2, 3):
				return &S{K: SYield, E: c.expr()}
			default:
				return c.eff()
			}
		}
		if r.Chance(1, 2) {
			loop.Init = simple()
			if loop.Init.K == SYield {
				c.g.mark("for_yielding_init")
			}
		}
		loop.E = bin(v(ctr), "<", hi())
		loop.Post = simple()
		if loop.Post.K == SYield {
			c.g.mark("for_yielding_post")
			d.innerSwitchYield = false
		}
		if outs := c.sc.visible(vInt); loop.Post.K == SYield && len(outs) > 0 && r.Chance(1, 3) {
			// the body re-declares, at its top level, an outer variable that the post reads
			o := outs[r.Intn(len(outs))]
			e := d.sub()
			e.sc.declare(o, vInt)
			sh := &S{K: SDecl, ID: c.g.id(), Name: o, E: bin(c.pure(1), "+", lit(100))}
			if c.g.varStyle || r.Bool() {
				sh.Type = "int"
			}
			loop.Body = append([]*S{{K: SIncDec, Name: ctr, Op: "++"}, sh}, e.stmts(nb)...)
			loop.Post.E = bin(v(o), "+", lit(r.Range(0, 3)))
			if r.Chance(1, 2) {
				// a body that neither yields nor continues (body and post end up in one thunk),
				// the post reaches the outer variable only from inside a function literal
				loop.Body = []*S{{K: SIncDec, Name: ctr, Op: "++"}, sh, {K: SEff, ID: c.g.id(), Tag: c.g.nextTag(), Reads: []string{o}}}
				if r.Bool() {
					loop.Post.E = &X{K: XRaw, S: fmt.Sprintf("func() int { return %s + %d }()", o, r.Range(0, 3))}
				} else {
					loop.Post.E = &X{K: XRaw, S: fmt.Sprintf("func() int { %s += %d; return %s }()", o, r.Range(1, 3), o)}
				}
				c.g.mark("for_post_reads_shadowed_variable_inside_a_function_literal")
			}
			c.g.mark("for_post_reads_variable_shadowed_in_body")
			return []*S{decl, loop}
		}
		if loop.Post.K == SYieldFrom && loop.Post.E != nil && loop.Post.E.K == XVar && r.Chance(1, 2) {
			// the post delegates to an OUTER iterator variable whose name the body re-declares
			// at its top level; the body neither yields nor continues
			if src := c.iterExpr(); src != nil && src.K == XIterCall {
				name := loop.Post.E.Name
				loop.Body = []*S{{K: SIncDec, Name: ctr, Op: "++"}, {K: SDecl, ID: c.g.id(), Name: name, E: src},
					{K: SRaw, ID: c.g.id(), Src: fmt.Sprintf("_ = %s.MoveNext()\nvrt.E(%d, %s.Current())", name, c.g.nextTag(), name)}}
				c.g.mark("for_post_yieldfrom_of_variable_shadowed_in_body")
				return []*S{decl, loop}
			}
		}
		loop.Body = append([]*S{{K: SIncDec, Name: ctr, Op: "++"}}, d.block(nb)...)
		if (loop.Post.K == SYield || loop.Post.K == SYieldFrom) && r.Chance(2, 5) {
			// a continue that must still run the yielding post statement, reached through a
			// switch (it targets the loop, not the switch), optionally after a yield of the
			// same iteration, under an if, or in a nested block
			cont := []*S{{K: SContinue, ID: c.g.id()}}
			switch r.Intn(4) {
			case 0:
				cont = []*S{{K: SIf, ID: c.g.id(), E: bin(v(ctr), "<", lit(3)), Body: cont}}
			case 1:
				cont = append([]*S{{K: SYield, ID: c.g.id(), E: bin(v(ctr), "+", lit(r.Range(50, 60)))}}, cont...)
			case 2:
				cont = []*S{{K: SBlock, ID: c.g.id(), Body: append([]*S{c.eff()}, cont...)}}
			}
			sel := bin(bin(v(ctr), "%", lit(2)), "==", lit(r.Intn(2)))
			var sw *S
			switch r.Intn(3) {
			case 0: // tag-less
				sw = &S{K: SSwitch, ID: c.g.id(), Cases: []*Case{{Vals: []*X{sel}, Body: cont}}}
			case 1: // tagged, with a default that falls out
				sw = &S{K: SSwitch, ID: c.g.id(), E: bin(v(ctr), "%", lit(3)), Cases: []*Case{{Vals: []*X{lit(r.Intn(3))}, Body: cont}, {Default: true, Body: []*S{c.eff()}}}}
			default: // the continue sits in the default clause
				sw = &S{K: SSwitch, ID: c.g.id(), E: bin(v(ctr), "%", lit(2)), Cases: []*Case{{Vals: []*X{lit(r.Intn(2))}, Body: []*S{c.eff()}}, {Default: true, Body: cont}}}
			}
			pos := 1 + r.Intn(len(loop.Body))
			loop.Body = append(loop.Body[:pos:pos], append([]*S{sw}, loop.Body[pos:]...)...)
			c.g.mark("continue_inside_switch_in_loop_with_yielding_post")
		}
		if loop.Post.K == SYield && r.Chance(1, 2) {
			// let the post read an OUTER variable whose name the body re-declares at its top level
			outer := map[string]bool{}
			for _, n := range c.sc.visible(vInt, vRO) {
				outer[n] = true
			}
			for _, b := range loop.Body {
				if b.K == SDecl && outer[b.Name] {
					loop.Post.E = bin(v(b.Name), "+", lit(r.Range(0, 3)))
					c.g.mark("for_post_reads_variable_shadowed_in_body")
					break
				}
			}
		}
		return []*S{decl, loop}
	}
}

// initlessLoop: a three-clause loop WITHOUT init over a counter declared at the top of the
// function and reset after the loop. Placed first in an enclosing loop body, the very same
// loop value (no Delay in front of it after optimisation) is executed once per outer iteration.
func (c *fctx) initlessLoop(nb int) []*S {
	r := c.g.r
	d := c.sub()
	d.loops++
	d.sws = 0
	k := c.g.topCtr
	c.g.topCtr++
	name := fmt.Sprintf("c%d", k)
	d.sc.declare(name, vRO)
	loop := &S{K: SFor, ID: c.g.id(), E: bin(v(name), "<", lit(r.Range(1, 3))), Post: &S{K: SIncDec, Name: name, Op: "++"}}
	if r.Chance(1, 3) {
		// one run yields at a given count and, resumed, leaves by break at a later count; the
		// counter is not rewound, so the next run (possibly nested in the call stack of the one
		// that broke) makes silent iterations until the condition fails
		y1 := r.Range(1, 2)
		b1 := y1 + r.Range(1, 2)
		lim := b1 + r.Range(1, 3)
		yb := []*S{{K: SYield, ID: c.g.id(), E: v(name)}}
		if r.Bool() {
			yb = append(yb, &S{K: SContinue})
		}
		if r.Bool() { // condition-only form: the counter advances in the body
			loop.E, loop.Post = bin(v(name), "<", lit(lim)), nil
			loop.Body = []*S{{K: SIncDec, Name: name, Op: "++"},
				{K: SIf, ID: c.g.id(), E: bin(v(name), "==", lit(y1)), Body: yb},
				{K: SIf, ID: c.g.id(), E: bin(v(name), "==", lit(b1)), Body: []*S{{K: SBreak}}}}
		} else {
			loop.E = bin(v(name), "<", lit(lim))
			loop.Body = []*S{
				{K: SIf, ID: c.g.id(), E: bin(v(name), "==", lit(y1)), Body: []*S{{K: SYield, ID: c.g.id(), E: v(name)}}},
				{K: SIf, ID: c.g.id(), E: bin(v(name), "==", lit(b1)), Body: []*S{{K: SIncDec, Name: name, Op: "++"}, {K: SBreak}}}}
		}
		c.g.mark("initless_loop_yield_then_break_then_silent_rerun")
		return []*S{loop}
	}
	if r.Chance(1, 2) {
		// iterations that break without yielding, iterations that yield, iterations that fall
		// through: runs of this one loop value end by condition, by break and by suspension
		e := d.sub()
		mod := r.Range(2, 4)
		brk := &S{K: SIf, ID: c.g.id(), E: bin(bin(bin(v(name), "+", e.atom()), "%", lit(mod)), "==", lit(r.Intn(mod))), Body: []*S{{K: SBreak}}}
		yld := &S{K: SIf, ID: c.g.id(), E: e.cond(), Body: []*S{{K: SYield, ID: c.g.id(), E: bin(v(name), "+", lit(r.Range(10, 40)))}}}
		body := []*S{yld, e.eff()}
		if r.Bool() {
			body = []*S{brk, yld, e.eff()}
		} else {
			body = []*S{yld, brk, e.eff()}
		}
		loop.E = bin(v(name), "<", lit(r.Range(2, 6)))
		loop.Body = body
		c.g.mark("initless_loop_with_break_and_conditional_yield")
		if r.Bool() {
			// the counter is NOT rewound: a later run of the loop continues where the earlier one
			// left (silent iterations until the condition fails, or no iteration at all)
			c.g.mark("initless_loop_counter_persists_across_runs")
			return []*S{loop}
		}
		return []*S{loop, {K: SAssign, ID: c.g.id(), Name: name, Op: "=", E: lit(r.Intn(2))}}
	}
	loop.Body = d.block(nb)
	if !hasYield(loop.Body) && r.Chance(2, 3) {
		loop.Body = append([]*S{{K: SYield, ID: c.g.id(), E: bin(v(name), "+", lit(r.Range(10, 40)))}}, loop.Body...)
	}
	c.g.mark("for_without_init_over_function_level_counter")
	return []*S{loop, {K: SAssign, ID: c.g.id(), Name: name, Op: "=", E: lit(0)}}
}

func (c *fctx) funcLit() []*S {
	r := c.g.r
	cfg := c.g.cfg
	name := c.fresh(fnPool)
	if c.gen && cfg.GenLits && r.Chance(1, 2) {
		// nested generator literal with one parameter, consumed by delegation or a consumer loop
		lt := &S{K: SFuncLit, ID: c.g.id(), Name: name, Gen: true, Elem: "int", Params: []string{"p"}, Named: r.Chance(1, 4), NoUse: true}
		d := c.sub()
		d.sc = d.sc.child()
		d.sc.declare("p", vRO)
		d.gen, d.loops, d.sws, d.inLit = true, 0, 0, true
		d.nilRet = !lt.Named
		d.plainRet = ""
		lt.Body = d.stmts(1 + r.Intn(4))
		if !hasYield(lt.Body) {
			lt.Body = append([]*S{{K: SYield, E: v("p")}}, lt.Body...)
		}
		if last := lt.Body[len(lt.Body)-1]; last.K != SReturn {
			lt.Body = append(lt.Body, &S{K: SReturn, Nil: !lt.Named})
		}
		c.sc.declare(name, vGenLit)
		c.g.mark("nested_generator_literal")
		use := &S{K: SYieldFrom, ID: c.g.id(), E: &X{K: XIterCall, Name: name, Args: []*X{c.pure(1)}}}
		return []*S{lt, use}
	}
	if !cfg.Closures {
		return []*S{c.eff()}
	}
	if r.Chance(2, 3) {
		lt := &S{K: SFuncLit, ID: c.g.id(), Name: name, Ret: "int"}
		d := c.sub()
		d.gen, d.loops, d.sws, d.plainRet, d.inLit = false, 0, 0, "int", true
		body := d.stmts(r.Intn(3))
		if len(body) == 1 && body[0].K == SEff && r.Chance(1, 2) {
			body = nil
		}
		if len(body) == 0 || body[len(body)-1].K != SReturn {
			// the returned expression is never a bare call (that is the eta-reducible shape, C07/C13)
			body = append(body, &S{K: SReturn, E: bin(d.pure(1), "+", lit(r.Range(0, 3)))})
		}
		lt.Body = body
		c.sc.declare(name, vFnInt)
		c.g.mark("closure_int")
		return []*S{lt}
	}
	lt := &S{K: SFuncLit, ID: c.g.id(), Name: name}
	d := c.sub()
	d.gen, d.loops, d.sws, d.plainRet, d.inLit = false, 0, 0, "", true
	lt.Body = d.stmts(1 + r.Intn(2))
	if hasAssign(lt.Body) {
		c.g.mark("closure_updates_captured")
	}
	c.sc.declare(name, vFnVoid)
	return []*S{lt}
}

func hasAssign(ss []*S) bool {
	found := false
	walk(ss, func(s *S) {
		if s.K == SAssign || s.K == SIncDec {
			found = true
		}
	})
	return found
}

func hasYield(ss []*S) bool {
	found := false
	walkNoLit(ss, func(s *S) {
		if s.K == SYield || s.K == SYieldFrom {
			found = true
		}
	})
	return found
}

// walk visits every statement (including init/post and literal bodies).
func walk(ss []*S, f func(*S)) {
	for _, s := range ss {
		if s == nil {
			continue
		}
		f(s)
		if s.Init != nil {
			walk([]*S{s.Init}, f)
		}
		if s.Post != nil {
			walk([]*S{s.Post}, f)
		}
		walk(s.Body, f)
		walk(s.Else, f)
		for _, c := range s.Cases {
			walk(c.Body, f)
		}
	}
}

// walkNoLit is walk without descending into function literals.
func walkNoLit(ss []*S, f func(*S)) {
	for _, s := range ss {
		if s == nil {
			continue
		}
		f(s)
		if s.K == SFuncLit {
			continue
		}
		if s.Init != nil {
			walkNoLit([]*S{s.Init}, f)
		}
		if s.Post != nil {
			walkNoLit([]*S{s.Post}, f)
		}
		walkNoLit(s.Body, f)
		walkNoLit(s.Else, f)
		for _, c := range s.Cases {
			walkNoLit(c.Body, f)
		}
	}
}

func (c *fctx) yieldFrom() []*S { return c.yieldFromX(true) }

// yieldFromX: with allowDecl false only statements that declare nothing are produced (the
// caller may discard the result).
func (c *fctx) yieldFromX(allowDecl bool) []*S {
	r := c.g.r
	// delegates held in variables: fresh, advanced by hand before delegation, delegated twice
	if its := c.sc.visible(vIter); len(its) > 0 && r.Chance(1, 2) {
		it := its[r.Intn(len(its))]
		if r.Chance(1, 3) {
			c.g.mark("delegate_advanced_by_hand")
			return []*S{{K: SRaw, ID: c.g.id(), Src: fmt.Sprintf("if %s.MoveNext() {\n\tvrt.E(%d, %s.Current())\n}", it, c.g.nextTag(), it)}}
		}
		c.g.mark("yieldfrom_iterator_variable")
		return []*S{{K: SYieldFrom, ID: c.g.id(), E: v(it)}}
	}
	if allowDecl && r.Chance(1, 4) {
		if src := c.iterExpr(); src != nil && src.K == XIterCall {
			it := c.fresh([]string{"it", "it2", "it3"})
			c.sc.declare(it, vIter)
			c.g.mark("delegate_stored_in_variable")
			return []*S{{K: SDecl, ID: c.g.id(), Name: it, E: src}}
		}
	}
	// delegate to a nested literal in scope or to an earlier finite generator of the batch
	if gs := c.sc.visible(vGenLit); len(gs) > 0 && r.Chance(1, 2) {
		return []*S{{K: SYieldFrom, ID: c.g.id(), E: &X{K: XIterCall, Name: gs[r.Intn(len(gs))], Args: []*X{c.pure(1)}}}}
	}
	var cands []*Func
	for _, f := range c.g.funcs {
		if f.Gen && !f.Inf && f.Recv == "" && !f.TParam && f.Elem == c.elem {
			cands = append(cands, f)
		}
	}
	if len(cands) == 0 {
		return []*S{c.eff()}
	}
	f := cands[r.Intn(len(cands))]
	call := &X{K: XIterCall, Name: f.Name}
	for i := range f.Params {
		a := f.Args[i][r.Intn(len(f.Args[i]))]
		var e *X = lit(a)
		if i == 0 && r.Chance(1, 3) {
			e = &X{K: XV, Tag: c.g.nextTag(), A: lit(a)}
			c.g.mark("yieldfrom_argument_effect")
		}
		call.Args = append(call.Args, e)
	}
	c.g.mark("yieldfrom_other_function")
	c.g.feat["CALL:"+f.Name] = true
	return []*S{{K: SYieldFrom, ID: c.g.id(), E: call}}
}

// ---------------------------------------------------------------------------------------

const PickDecl = `func pick(n int) any {
	switch n % 3 {
	case 0:
		return "s"
	case 1:
		return n
	}
	return nil
}`

// Base weights per profile.
func baseCfg(profile string) Cfg {
	c := Cfg{Profile: profile, MaxDepth: 4, MaxStmts: 22, EffPct: 25, DeadPct: 4, ElsePct: 50, Quar: map[string]bool{}, NFuncs: 60, NFiles: 3}
	c.W = map[SK]int{SDecl: 6, SAssign: 6, SIncDec: 3, SEff: 8, SYield: 14, SBlock: 3, SIf: 9, SSwitch: 6, STypeSwitch: 3, SFor: 9,
		SBreak: 5, SContinue: 4, SReturn: 2}
	c.ForForm = [5]int{5, 3, 3, 1, 3}
	c.TypeSw = true
	c.Tick = true
	switch profile {
	case "control":
		c.W[SFuncLit] = 2
		c.GenLits = true
	case "scope":
		c.W[SDecl], c.W[SAssign], c.W[SFuncLit], c.W[SBlock], c.W[SExpr], c.W[SRange] = 12, 9, 8, 6, 5, 5
		c.Closures, c.GenLits, c.Ranges = true, true, true
	case "delegation":
		c.W[SYieldFrom], c.W[SFuncLit] = 10, 3
		c.Deleg, c.GenLits = true, true
		c.ForForm = [5]int{5, 3, 3, 0, 3}
	case "range":
		c.W[SRange], c.W[SFuncLit], c.W[SSwitch], c.W[STypeSwitch] = 16, 3, 3, 1
		c.Ranges, c.Closures = true, true
	case "consumer":
		c.W[SRange], c.W[SFuncLit] = 12, 3
		c.Consume, c.GenLits, c.Deleg = true, true, true
		c.ForForm = [5]int{5, 3, 3, 0, 3}
		c.PlainPct = 50
	case "bystander":
		c.W[SFuncLit], c.W[SExpr], c.W[SDecl], c.W[SAssign], c.W[SRange] = 9, 6, 9, 9, 5
		c.Closures, c.GenLits, c.Ranges, c.Consume = true, true, true, true
		c.PlainPct = 60
	case "all":
		c.W[SFuncLit], c.W[SYieldFrom], c.W[SExpr], c.W[SRange] = 5, 5, 3, 5
		c.Closures, c.GenLits, c.Deleg, c.Ranges, c.Consume = true, true, true, true, true
		c.ForForm = [5]int{5, 3, 3, 0, 3}
	}
	return c
}

// Swarm perturbs the base configuration per batch.
func Swarm(r *prng.R, profile string) Cfg {
	c := baseCfg(profile)
	keys := []SK{SDecl, SAssign, SIncDec, SEff, SBlock, SIf, SSwitch, STypeSwitch, SFor, SBreak, SContinue, SReturn, SFuncLit, SYieldFrom, SExpr}
	if profile == "range" || profile == "consumer" {
		keys = keys[:len(keys)-3] // the profile's own statement kinds are never disabled
	}
	for _, k := range keys {
		if c.W[k] == 0 {
			continue
		}
		switch r.Intn(6) {
		case 0:
			c.W[k] = 0
		case 1:
			c.W[k] *= 3
		}
	}
	if c.W[SYield] == 0 {
		c.W[SYield] = 10
	}
	c.MaxDepth = 2 + r.Intn(4)
	c.MaxStmts = 8 + r.Intn(24)
	c.EffPct = []int{0, 10, 25, 60}[r.Intn(4)]
	c.DeadPct = []int{0, 0, 5, 15}[r.Intn(4)]
	c.ElsePct = 20 + r.Intn(70)
	for i := range c.ForForm {
		if c.ForForm[i] > 0 && r.Chance(1, 5) {
			c.ForForm[i] = 0
		}
	}
	if c.ForForm == [5]int{} {
		c.ForForm[0] = 1
	}
	c.TypeSw = r.Chance(3, 4)
	return c
}

// GenProg draws one batch program.
func GenProg(r *prng.R, cfg Cfg, pkg string) *Prog {
	g := &G{r: r, cfg: cfg, prog: &Prog{Pkg: pkg}}
	g.prog.Import = []string{"dot", "dot", "co", "renamed"}[r.Intn(4)]
	g.prog.SeqImported = r.Chance(1, 6)
	g.prog.LoadTest = prng.Derive(r.Seed(), "loadtest").Chance(1, 3) // (own stream: does not shift the program)
	nf := cfg.NFiles
	for i := 0; i < nf; i++ {
		g.prog.Files = append(g.prog.Files, &File{Name: fmt.Sprintf("%sgen_%d.go", cfg.Prefix, i), UsesAPI: true})
	}
	for i := 0; i < cfg.NFuncs; i++ {
		var f *Func
		if cfg.PlainPct > 0 && i >= 6 && r.Intn(100) < cfg.PlainPct {
			f = g.genPlain(i)
		} else if cfg.Profile == "delegation" && i%7 == 3 {
			f = g.genRec(i, "")
			if r.Chance(1, 3) && i+1 < cfg.NFuncs {
				// a mutually recursive pair
				f2 := g.genRec(i+1, f.Name)
				f.Calls = append(f.Calls, f2.Name)
				g.patchRec(f, f2.Name)
				file := g.prog.Files[i%nf]
				file.Funcs = append(file.Funcs, f, f2)
				g.funcs = append(g.funcs, f, f2)
				i++
				continue
			}
		} else {
			f = g.genFunc(i)
		}
		file := g.prog.Files[i%nf]
		file.Funcs = append(file.Funcs, f)
		g.funcs = append(g.funcs, f)
	}
	if !cfg.NoHelp {
		// the helpers live in a plain file (no API import): the compiler skips it and the
		// optimise stage reloads a partial package, as with hand-written sibling files
		g.prog.Files = append(g.prog.Files, &File{Name: cfg.Prefix + "helpers.go", Decls: []string{PickDecl, HelperDecls}})
	}
	if cfg.Profile == "consumer" {
		src, ref, fs, plain, pfs := consumerTemplates(r, g.nextTag)
		tf := &File{Name: "gen_types.go", UsesAPI: true, Decls: src, RefDecls: ref, Extern: fs}
		g.prog.Files = append(g.prog.Files, tf, &File{Name: "plain_rotate.go", Decls: plain, Extern: pfs})
	}
	if cfg.Profile == "delegation" && !cfg.NoHelp {
		src, ref, fs := delegTemplates(r, g.nextTag)
		g.prog.Files = append(g.prog.Files, &File{Name: "gen_feed.go", UsesAPI: true, Decls: src, RefDecls: ref, Extern: fs})
	}
	if (cfg.Profile == "all" || cfg.Profile == "bystander") && !cfg.NoHelp {
		imps, src, ref, fs, plain := optTemplates(r, g.nextTag)
		g.prog.Files = append(g.prog.Files, &File{Name: "plain_opt.go", Decls: plain})
		name := "gen_opt.go"
		if cfg.OptFile != "" {
			name = cfg.OptFile
		}
		tf := &File{Name: name, UsesAPI: true, Decls: src, RefDecls: ref, Extern: fs, Imports: imps}
		g.prog.Files = append(g.prog.Files, tf)
		nsrc, nref, nfs := nestedTemplates(r, g.nextTag)
		g.prog.Files = append(g.prog.Files, &File{Name: "gen_subs.go", UsesAPI: true, Decls: nsrc, RefDecls: nref, Extern: nfs, Imports: []string{`"time"`}})
	}
	return g.prog
}

// genRec draws a recursive delegator: R(d) delegates to R(d-1) (chain, depth up to 200) or
// to R(d-1) and R(d-2) (tree, small depths); with partner != "", to the partner instead.
func (g *G) genRec(i int, partner string) *Func {
	r := g.r
	g.feat = map[string]bool{}
	f := &Func{ID: i, Name: fmt.Sprintf("R%d", i), Gen: true, Elem: "int", Params: []string{"d"}, Named: r.Chance(1, 4)}
	tree := r.Chance(1, 3)
	if tree {
		f.Args = [][]int{{0, 1, 2, 3, 5}}
		g.mark("recursion_tree")
	} else {
		f.Args = [][]int{{0, 1, 2, 5, 50, 200}}
		g.mark("recursion_chain_depth_200")
	}
	target := f.Name
	if partner != "" {
		target = partner
		f.Calls = append(f.Calls, partner)
		g.mark("mutual_recursion")
	}
	sc := (&scope{names: map[string]vkind{}})
	sc.declare("d", vRO)
	left := 2 + r.Intn(6)
	c := &fctx{g: g, gen: true, elem: "int", named: f.Named, nilRet: !f.Named, sc: sc.child(), left: &left}
	call := func(k int) *S {
		return &S{K: SYieldFrom, ID: g.id(), E: &X{K: XIterCall, Name: target, Args: []*X{bin(v("d"), "-", lit(k))}}}
	}
	base := &S{K: SIf, ID: g.id(), E: bin(v("d"), "<=", lit(0)), Body: []*S{{K: SYield, E: &X{K: XV, Tag: g.nextTag(), A: lit(r.Range(0, 9))}}, {K: SReturn, Nil: !f.Named}}}
	f.Body = []*S{c.eff(), base}
	if r.Bool() {
		f.Body = append(f.Body, &S{K: SYield, ID: g.id(), E: v("d")})
	}
	f.Body = append(f.Body, call(1))
	if r.Bool() {
		f.Body = append(f.Body, c.eff(), &S{K: SYield, ID: g.id(), E: bin(v("d"), "*", lit(10))})
	}
	if tree {
		f.Body = append(f.Body, call(2))
	}
	f.Body = append(f.Body, &S{K: SReturn, ID: g.id(), Nil: !f.Named})
	for k := range g.feat {
		f.Feat = append(f.Feat, k)
	}
	sortStrings(f.Feat)
	return f
}

// patchRec makes f delegate to partner instead of itself (second half of a mutual pair).
func (g *G) patchRec(f *Func, partner string) {
	walk(f.Body, func(s *S) {
		if s.K == SYieldFrom && s.E != nil && s.E.K == XIterCall && s.E.Name == f.Name {
			s.E.Name = partner
		}
	})
}

// genPlain draws an ordinary (non-generator) function of the processed file that consumes
// generators of the batch: its result and its effect log are the observation.
func (g *G) genPlain(i int) *Func {
	r := g.r
	g.feat = map[string]bool{}
	f := &Func{ID: i, Name: fmt.Sprintf("C%d", i)}
	np := 1 + r.Intn(2)
	sc := (&scope{names: map[string]vkind{}})
	for p := 0; p < np; p++ {
		f.Params = append(f.Params, parmPool[p])
		f.Args = append(f.Args, []int{-1, 0, 1, 2, 3, 5})
		sc.declare(parmPool[p], vInt)
	}
	left := 4 + r.Intn(g.cfg.MaxStmts)
	c := &fctx{g: g, gen: false, plainRet: "int", sc: sc.child(), left: &left}
	acc := "acc"
	c.sc.declare(acc, vInt)
	f.Body = append([]*S{{K: SDecl, ID: g.id(), Name: acc, E: lit(0)}}, c.stmts(left)...)
	f.Body = append(f.Body, &S{K: SReturn, ID: g.id(), E: &X{K: XV, Tag: g.nextTag(), A: v(acc)}})
	for k := range g.feat {
		if len(k) > 5 && k[:5] == "CALL:" {
			f.Calls = append(f.Calls, k[5:])
		} else if k != "INF" {
			f.Feat = append(f.Feat, k)
		}
	}
	f.Feat = append(f.Feat, "plain_consumer_function")
	sortStrings(f.Feat)
	sortStrings(f.Calls)
	return f
}

func (g *G) genFunc(i int) *Func {
	r := g.r
	g.feat = map[string]bool{}
	f := &Func{ID: i, Name: fmt.Sprintf("%sG%d", g.cfg.Prefix, i), Gen: true, Elem: "int", Named: r.Chance(1, 4)}
	np := r.Intn(3)
	sc := (&scope{names: map[string]vkind{}})
	for p := 0; p < np; p++ {
		f.Params = append(f.Params, parmPool[p])
		f.Args = append(f.Args, []int{-1, 0, 1, 2, 3, 5})
		sc.declare(parmPool[p], vInt)
	}
	left := 4 + r.Intn(g.cfg.MaxStmts)
	c := &fctx{g: g, gen: true, elem: "int", named: f.Named, nilRet: !f.Named, sc: sc.child(), left: &left}
	g.topCtr = 0
	g.varStyle = r.Chance(1, 4)
	f.Body = c.stmts(left)
	if !hasYield(f.Body) {
		f.Body = append([]*S{{K: SYield, ID: g.id(), E: lit(7)}}, f.Body...)
	}
	for k := g.topCtr - 1; k >= 0; k-- {
		f.Body = append([]*S{{K: SDecl, ID: g.id(), Name: fmt.Sprintf("c%d", k), E: lit(0)}}, f.Body...)
	}
	if r.Chance(1, 10) && len(g.funcs) > 0 {
		// 'return <expr>' with a non-nil operand: the operand is still evaluated, then the generator ends
		var cands []*Func
		for _, o := range g.funcs {
			if o.Gen && !o.TParam && o.Recv == "" && o.Elem == "int" {
				cands = append(cands, o)
			}
		}
		if len(cands) > 0 {
			o := cands[r.Intn(len(cands))]
			call := &X{K: XIterCall, Name: o.Name}
			for i := range o.Params {
				var a *X = lit(o.Args[i][r.Intn(len(o.Args[i]))])
				if i == 0 {
					a = &X{K: XV, Tag: g.nextTag(), A: a}
				}
				call.Args = append(call.Args, a)
			}
			if r.Chance(1, 3) {
				// an operand without any call whose evaluation panics (index out of range on an
				// empty slice of iterators): the advance that reaches the return must panic
				f.Body = append([]*S{{K: SVarDecl, ID: g.id(), Name: "its9", Type: "[]«Iter[int]»"}}, f.Body...)
				idx := "0"
				if len(f.Params) > 0 {
					idx = "(" + f.Params[0] + "*" + f.Params[0] + ")%3"
				}
				f.Body = append(f.Body, &S{K: SReturn, ID: g.id(), E: &X{K: XRaw, S: "its9[" + idx + "]"}, RetIter: true})
				g.mark("return_operand_panics_without_a_call")
			} else if len(f.Params) > 0 && len(o.Params) > 0 && r.Chance(1, 2) {
				// a call of a generator whose arguments contain no call but may panic (division by
				// zero for some argument vectors): constructing the iterator runs nothing, the
				// evaluation of its arguments does happen, in the advance that reaches the return
				p0 := f.Params[0]
				call.Args[0] = &X{K: XRaw, S: fmt.Sprintf("%d / ((%s*%s + %d) %% 3)", r.Range(7, 30), p0, p0, r.Intn(3))}
				f.Body = append(f.Body, &S{K: SReturn, ID: g.id(), E: call, RetIter: true})
				g.feat["CALL:"+o.Name] = true
				g.mark("return_of_a_generator_call_whose_call_free_arguments_may_panic")
			} else {
				f.Body = append(f.Body, &S{K: SReturn, ID: g.id(), E: call, RetIter: true})
				g.feat["CALL:"+o.Name] = true
				g.mark("return_with_non_nil_operand")
			}
		}
	}
	if r.Chance(1, 8) {
		// a three-clause loop whose POST is a bare call of a function-typed local variable that
		// is re-assigned while the loop runs; and an expression statement that merely CONTAINS
		// a call of panic (inside a closure invoked on the spot), followed by live statements
		p0 := "1"
		if len(f.Params) > 0 {
			p0 = f.Params[0]
		}
		id := g.id()
		t1, t2 := g.nextTag(), g.nextTag()
		text := fmt.Sprintf("n%[1]d := 0\nup%[1]d := func() { n%[1]d++ }\ndown%[1]d := func() { n%[1]d -= 2 }\nstep%[1]d := up%[1]d\nfor k%[1]d := 0; k%[1]d < 5; step%[1]d() {\n\tk%[1]d++\n\t«Yield»(n%[1]d + 200)\n\tif k%[1]d == 2 {\n\t\tstep%[1]d = down%[1]d\n\t}\n}\nfunc() {\n\tif %[2]s < -1000 {\n\t\tpanic(\"not in this run\")\n\t}\n\tvrt.E(%[3]d)\n}()\nvrt.E(%[4]d, n%[1]d)\n«Yield»(n%[1]d)", id, p0, t1, t2)
		f.Body = append([]*S{{K: SRaw, ID: id, Src: text}}, f.Body...)
		g.mark("for_post_is_a_call_of_a_reassigned_function_variable")
		g.mark("expression_statement_containing_a_panic_call_followed_by_live_statements")
	}
	if len(f.Params) > 0 && r.Chance(1, 8) {
		// the body STARTS with an argument check that panics: the panic belongs to the first
		// advance, calling the generator function runs nothing
		id := g.id()
		f.Body = append([]*S{{K: SRaw, ID: id, Src: fmt.Sprintf("if %s < 0 {\n\tpanic(\"negative argument\")\n}", f.Params[0])}}, f.Body...)
		g.mark("body_starts_with_a_panicking_argument_check")
	}
	if r.Chance(1, 8) {
		// a switch with a default in which EVERY clause ends in a jump (break of the switch,
		// continue of the loop), in a loop, followed by statements that are very much alive; and
		// a type switch with a ':=' initialiser AND a guard symbol whose initialiser variable is
		// read only inside a closure of a clause, next to an outer variable of the same name
		p0 := "2"
		if len(f.Params) > 0 {
			p0 = f.Params[0]
		}
		id := g.id()
		t1, t2, t3, t4 := g.nextTag(), g.nextTag(), g.nextTag(), g.nextTag()
		text := fmt.Sprintf("for q%[1]d := 0; q%[1]d < 3; q%[1]d++ {\n\tswitch {\n\tcase q%[1]d == %[2]s:\n\t\tvrt.E(%[3]d, q%[1]d)\n\t\tbreak\n\tcase q%[1]d == 2:\n\t\tcontinue\n\tdefault:\n\t\tif q%[1]d > 5 {\n\t\t\tcontinue\n\t\t} else {\n\t\t\tbreak\n\t\t}\n\t}\n\tvrt.E(%[4]d, q%[1]d)\n\t«Yield»(q%[1]d + 70)\n}\nw%[1]d := any(\"outer\")\n_ = w%[1]d\nswitch w%[1]d := any(%[2]s); x%[1]d := w%[1]d.(type) {\ncase int:\n\tsee%[1]d := func() any { return w%[1]d }\n\t«Yield»(x%[1]d + 1)\n\tvrt.E(%[5]d, see%[1]d().(int))\ncase string:\n\tvrt.E(%[6]d, len(x%[1]d))\n}", id, p0, t1, t2, t3, t4)
		f.Body = append([]*S{{K: SRaw, ID: id, Src: text}}, f.Body...)
		g.mark("switch_whose_every_clause_ends_in_a_jump_followed_by_live_statements")
		g.mark("type_switch_with_define_init_and_guard_symbol_init_variable_read_in_a_closure_only")
	}
	if r.Chance(1, 8) {
		// plain three-clause loops whose init is NOT a ':=' (an assignment, a call) nested in
		// compound statements that do not yield either: they stay native, init included
		p0 := "1"
		if len(f.Params) > 0 {
			p0 = f.Params[0]
		}
		id := g.id()
		t1, t2, t3, t4, t5 := g.nextTag(), g.nextTag(), g.nextTag(), g.nextTag(), g.nextTag()
		text := fmt.Sprintf("j%[1]d := 7\nif %[2]s >= -5 {\n\tfor j%[1]d = 0; j%[1]d < 2; j%[1]d++ {\n\t\tvrt.E(%[3]d, j%[1]d)\n\t}\n}\nswitch {\ndefault:\n\tfor vrt.E(%[4]d); j%[1]d < 4; j%[1]d++ {\n\t\tvrt.E(%[5]d, j%[1]d)\n\t}\n}\nfor o%[1]d := 0; o%[1]d < 2; o%[1]d++ {\n\tfor j%[1]d = o%[1]d; j%[1]d < 2; j%[1]d++ {\n\t\tvrt.E(%[6]d, j%[1]d)\n\t}\n}\n{\n\tfor j%[1]d += 10; j%[1]d < 13; j%[1]d++ {\n\t}\n}\nvrt.E(%[7]d, j%[1]d)", id, p0, t1, t2, t3, t4, t5)
		f.Body = append([]*S{{K: SRaw, ID: id, Src: text}}, f.Body...)
		g.mark("plain_loops_with_non_define_init_nested_in_plain_compound_statements")
	}
	if r.Chance(1, 8) {
		// a local variable that SHADOWS a predeclared identifier (nil, true, false, iota, len,
		// string), updated between yields of it that stand alone in a thunk: first statement
		// of a loop body, directly behind a yielding if / switch
		name := []string{"nil", "true", "false", "iota", "len", "string"}[r.Intn(6)]
		p0 := "3"
		if len(f.Params) > 0 {
			p0 = f.Params[0]
		}
		id := g.id()
		text := fmt.Sprintf("{\n\t%[1]s := %[2]s\n\tbump%[3]d := func() { %[1]s += 100 }\n\tfor i9 := 0; i9 < 2; i9++ {\n\t\t«Yield»(%[1]s)\n\t\t%[1]s += 10\n\t}\n\tif %[1]s > 15 {\n\t\t«Yield»(-1)\n\t}\n\t«Yield»(%[1]s)\n\tswitch {\n\tcase %[1]s %% 2 == 0:\n\t\tbump%[3]d()\n\t\t«Yield»(-2)\n\t}\n\t«Yield»(%[1]s)\n\tfor {\n\t\t«Yield»(%[1]s)\n\t\tbump%[3]d()\n\t\tif %[1]s > 250 {\n\t\t\tbreak\n\t\t}\n\t}\n\tvrt.E(%[4]d, %[1]s)\n}", name, p0, id, g.nextTag())
		f.Body = append([]*S{{K: SRaw, ID: id, Src: text}}, f.Body...)
		g.mark("local_variable_shadowing_a_predeclared_identifier_yielded_bare")
	}
	if r.Chance(1, 6) {
		// the body ENDS in a user-written block that yields (tail position of its thunk). In
		// front of it, with no yield in between, a variable is declared and captured; the
		// block re-declares that name together with a new one ('t9, n9 := ..' declares a NEW
		// t9 there), so the capture keeps the outer value
		ret := "return"
		if !f.Named {
			ret = "return nil"
		}
		id := g.id()
		k1, k2 := r.Range(5, 9), r.Range(2, 4)
		text := fmt.Sprintf("t9 := %d\nget9 := func() int { return t9 }\n{\n\tt9, n9 := %d, %d\n\t«Yield»(t9 + n9)\n\tvrt.E(%d, get9(), t9)\n\t«Yield»(get9())\n\t%s\n}", r.Range(0, 3), k1, k2, g.nextTag(), ret)
		if r.Bool() {
			// (a yield first, so that the declarations open a continuation thunk of their own)
			text = "«Yield»(" + fmt.Sprint(r.Range(40, 49)) + ")\n" + text
		}
		f.Body = append(f.Body, &S{K: SRaw, ID: id, Src: text, Ref: strings.Replace(text, "\treturn nil\n}", "\treturn\n}", 1)})
		g.mark("tail_block_redeclares_a_captured_variable_of_its_thunk")
		// (the block ends in a return: nothing can follow it, and Go needs no final return)
	} else {
		f.Body = append(f.Body, &S{K: SReturn, ID: g.id(), Nil: !f.Named})
	}
	for k, n := range g.quarantine(f.Body) {
		if n > 0 {
			g.mark("quarantined_" + k)
		}
	}
	f.Inf = g.feat["INF"]
	for k := range g.feat {
		if len(k) > 5 && k[:5] == "CALL:" {
			f.Calls = append(f.Calls, k[5:])
		} else if k != "INF" {
			f.Feat = append(f.Feat, k)
		}
	}
	sortStrings(f.Feat)
	sortStrings(f.Calls)
	return f
}

func sortStrings(a []string) {
	for i := 1; i < len(a); i++ {
		for j := i; j > 0 && a[j] < a[j-1]; j-- {
			a[j], a[j-1] = a[j-1], a[j]
		}
	}
}
