package gen

import (
	"fmt"

	"verif/sim/prng"
)

// Matrix workload: systematic combinations of an outer construct, an inner construct and the
// statements placed inside and around them. The compiler decides with syntactic predicates
// over exactly such combinations (does this body yield, continue, declare, end in an if; is
// this break inside a switch, a thunk, a native loop ...), so the interesting programs are
// small and structured rather than large and random. A function of the matrix is
//
//	acc := a % 5
//	W1 { pre; W2 { p1; p2 }; post }
//	Yield(acc)
//
// with W1, W2 drawn from the wrappers and pre/p1/p2/post from the pieces below. The index
// space (wrappers² x pieces⁴, ~0.5M) is sampled by the batch's stream; all PAIRS of choices
// are covered after a few hundred functions.

type mctx struct {
	g        *G
	ctr      string // innermost loop counter ("" outside loops)
	acc      string
	inLoop   bool // an unlabelled continue / break would target a loop of this function literal
	inSwitch bool
	canYield bool // inside a generator body (function or generator literal), not in a plain closure
	genRet   bool // 'return' here leaves a generator (render 'return nil')
	depth    int
	shadowed *bool // acc already re-declared in the current block
}

func (c *mctx) sub() *mctx {
	d := *c
	d.depth++
	f := false
	d.shadowed = &f
	return &d
}

func (c *mctx) idx() *X {
	if c.ctr != "" {
		return v(c.ctr)
	}
	return v(c.acc)
}

func (c *mctx) cond(k int) *X {
	return bin(bin(c.idx(), "%", lit(2)), "==", lit(k%2))
}

func (c *mctx) effS() *S {
	reads := []string{c.acc}
	if c.ctr != "" {
		reads = append(reads, c.ctr)
	}
	return &S{K: SEff, ID: c.g.id(), Tag: c.g.nextTag(), Reads: reads}
}

func (c *mctx) yieldS(off int) *S {
	return &S{K: SYield, ID: c.g.id(), E: bin(bin(c.idx(), "*", lit(10)), "+", bin(v(c.acc), "+", lit(off)))}
}

const matrixPieces = 16

// piece returns the statements of piece k, or nil when it is not valid in this context.
func (c *mctx) piece(k int) []*S {
	g := c.g
	switch k {
	case 0: // nothing
		return []*S{}
	case 1:
		if !c.canYield {
			return nil
		}
		return []*S{c.yieldS(1)}
	case 2:
		return []*S{c.effS()}
	case 3:
		return []*S{{K: SAssign, ID: g.id(), Name: c.acc, Op: "+=", E: bin(c.idx(), "+", lit(1))}}
	case 4: // break under a condition
		if !(c.inLoop || c.inSwitch) {
			return nil
		}
		return []*S{{K: SIf, ID: g.id(), E: c.cond(g.r.Intn(2)), Body: []*S{{K: SBreak, ID: g.id()}}}}
	case 5: // continue under a condition
		if !c.inLoop {
			return nil
		}
		return []*S{{K: SIf, ID: g.id(), E: c.cond(g.r.Intn(2)), Body: []*S{{K: SContinue, ID: g.id()}}}}
	case 6: // return under a condition
		return []*S{{K: SIf, ID: g.id(), E: bin(v(c.acc), ">", lit(g.r.Range(20, 60))), Body: []*S{{K: SReturn, ID: g.id(), Nil: c.genRet}}}}
	case 7: // delegation
		if !c.canYield {
			return nil
		}
		return []*S{{K: SYieldFrom, ID: g.id(), E: &X{K: XIterCall, Name: "MH", Args: []*X{bin(c.idx(), "%", lit(3))}}}}
	case 8: // the block re-declares acc
		if c.depth == 0 || *c.shadowed {
			return nil
		}
		*c.shadowed = true
		return []*S{{K: SDecl, ID: g.id(), Name: c.acc, E: bin(v(c.acc), "+", lit(100))}, c.effS()}
	case 9: // update through a closure
		name := fmt.Sprintf("fw%d", g.id())
		return []*S{{K: SFuncLit, ID: g.id(), Name: name, NoUse: true, Body: []*S{{K: SAssign, Name: c.acc, Op: "+=", E: lit(g.r.Range(2, 4))}}},
			{K: SExpr, ID: g.id(), E: &X{K: XCall, Name: name}}}
	case 10: // yield of a literal called on the spot
		if !c.canYield {
			return nil
		}
		return []*S{{K: SYield, ID: g.id(), E: &X{K: XRaw, S: fmt.Sprintf("func() int { return %s + %d }()", c.acc, g.r.Range(1, 5))}}}
	case 11: // a switch whose case yields, breaks out under a condition, yields again
		if !c.canYield {
			return nil
		}
		d := c.sub()
		d.inSwitch = true
		return []*S{{K: SSwitch, ID: g.id(), E: bin(c.idx(), "%", lit(2)), Cases: []*Case{
			{Vals: []*X{lit(g.r.Intn(2))}, Body: []*S{d.yieldS(2), {K: SIf, ID: g.id(), E: bin(v(c.acc), "<", lit(g.r.Range(1, 4))), Body: []*S{{K: SBreak, ID: g.id()}}}, d.yieldS(3)}},
			{Default: true, Body: []*S{d.effS()}}}}}
	case 12: // a native loop
		j := fmt.Sprintf("n%d", g.id())
		return []*S{{K: SFor, ID: g.id(), Init: &S{K: SDecl, Name: j, E: lit(0)}, E: bin(v(j), "<", lit(2)), Post: &S{K: SIncDec, Name: j, Op: "++"},
			Body: []*S{{K: SAssign, Name: c.acc, Op: "+=", E: v(j)}}}}
	case 13: // a native loop with a continue inside a switch
		j := fmt.Sprintf("n%d", g.id())
		return []*S{{K: SFor, ID: g.id(), Init: &S{K: SDecl, Name: j, E: lit(0)}, E: bin(v(j), "<", lit(3)), Post: &S{K: SIncDec, Name: j, Op: "++"},
			Body: []*S{{K: SSwitch, ID: g.id(), E: v(j), Cases: []*Case{{Vals: []*X{lit(1)}, Body: []*S{{K: SContinue, ID: g.id()}}}}},
				{K: SAssign, Name: c.acc, Op: "+=", E: bin(v(j), "+", lit(1))}}}}
	case 14: // the accumulator is captured, then re-declared together with a new variable
		if c.depth == 0 || *c.shadowed {
			return nil
		}
		*c.shadowed = true
		id := g.id()
		get, t := fmt.Sprintf("get%d", id), fmt.Sprintf("t%d", id)
		return []*S{{K: SFuncLit, ID: g.id(), Name: get, NoUse: true, Ret: "int", Body: []*S{{K: SReturn, E: v(c.acc)}}},
			{K: SRaw, ID: g.id(), Src: fmt.Sprintf("%s, %s := %s+%d, %d\n_ = %s", c.acc, t, c.acc, g.r.Range(10, 20), g.r.Range(1, 5), t)},
			{K: SEff, ID: g.id(), Tag: g.nextTag(), Reads: []string{c.acc, t}},
			{K: SAssign, ID: g.id(), Name: c.acc, Op: "+=", E: &X{K: XCall, Name: get}}}
	case 15: // a range over a function (stays native; its body does not yield) left by break / continue
		j := fmt.Sprintf("n%d", g.id())
		return []*S{{K: SRaw, ID: g.id(), Src: fmt.Sprintf("for %[1]s := range func(yield func(int) bool) {\n\t_ = yield(1) && yield(2) && yield(3)\n} {\n\tif %[1]s == 2 {\n\t\tcontinue\n\t}\n\tif %[1]s == 3 && %[2]s > 2 {\n\t\tbreak\n\t}\n\t%[2]s += %[1]s\n}", j, c.acc)}}
	}
	panic("bad piece")
}

const matrixWrappers = 21

// wrap applies wrapper k to the statements produced by inner (called with the context of the
// wrapper's body); nil when the wrapper is not valid here.
func (c *mctx) wrap(k int, inner func(*mctx) []*S) []*S {
	g := c.g
	d := c.sub()
	loopVar := func() string { return []string{"i", "j", "k"}[c.depth%3] + fmt.Sprint(g.id()) }
	seal := func(body []*S) []*S {
		if body == nil {
			return nil
		}
		return body
	}
	switch k {
	case 0: // for i := 0; i < 3; i++
		i := loopVar()
		d.ctr, d.inLoop, d.inSwitch = i, true, false
		body := inner(d)
		if body == nil {
			return nil
		}
		return []*S{{K: SFor, ID: g.id(), Init: &S{K: SDecl, Name: i, E: lit(0)}, E: bin(v(i), "<", lit(3)), Post: &S{K: SIncDec, Name: i, Op: "++"}, Body: body}}
	case 1, 2: // i := 0; for ; i < 3; Yield(..) / YieldFrom(..) { i++; ... }
		if !c.canYield {
			return nil
		}
		i := loopVar()
		d.ctr, d.inLoop, d.inSwitch = i, true, false
		body := inner(d)
		if body == nil {
			return nil
		}
		post := &S{K: SYield, E: bin(v(i), "+", lit(50))}
		if k == 2 {
			post = &S{K: SYieldFrom, E: &X{K: XIterCall, Name: "MH", Args: []*X{bin(v(i), "%", lit(2))}}}
		}
		return []*S{{K: SDecl, ID: g.id(), Name: i, E: lit(0)},
			{K: SFor, ID: g.id(), E: bin(v(i), "<", lit(3)), Post: post, Body: append([]*S{{K: SIncDec, Name: i, Op: "++"}}, body...)}}
	case 3: // i := 0; for i < 3 { i++; ... }
		i := loopVar()
		d.ctr, d.inLoop, d.inSwitch = i, true, false
		body := inner(d)
		if body == nil {
			return nil
		}
		return []*S{{K: SDecl, ID: g.id(), Name: i, E: lit(0)}, {K: SFor, ID: g.id(), E: bin(v(i), "<", lit(3)), Body: append([]*S{{K: SIncDec, Name: i, Op: "++"}}, body...)}}
	case 4: // i := 0; for { if i >= 3 { break }; i++; ... }
		i := loopVar()
		d.ctr, d.inLoop, d.inSwitch = i, true, false
		body := inner(d)
		if body == nil {
			return nil
		}
		guard := &S{K: SIf, ID: g.id(), E: bin(v(i), ">=", lit(3)), Body: []*S{{K: SBreak}}}
		return []*S{{K: SDecl, ID: g.id(), Name: i, E: lit(0)}, {K: SFor, ID: g.id(), Body: append([]*S{guard, {K: SIncDec, Name: i, Op: "++"}}, body...)}}
	case 5: // for k, e := range mks(3)
		i, e := loopVar(), fmt.Sprintf("e%d", g.id())
		d.ctr, d.inLoop, d.inSwitch = i, true, false
		body := inner(d)
		if body == nil {
			return nil
		}
		g.needHelpers = true
		return []*S{{K: SRange, ID: g.id(), Name: i, Name2: e, Op: ":=", E: &X{K: XCall, Name: "mks", Args: []*X{lit(3)}},
			Body: append([]*S{{K: SUse, Name: i}, {K: SUse, Name: e}}, body...)}}
	case 6: // for k := range 3
		i := loopVar()
		d.ctr, d.inLoop, d.inSwitch = i, true, false
		body := inner(d)
		if body == nil {
			return nil
		}
		return []*S{{K: SRange, ID: g.id(), Name: i, Op: ":=", E: lit(3), Body: append([]*S{{K: SUse, Name: i}}, body...)}}
	case 7: // switch
		d.inSwitch = true
		body := inner(d)
		if body == nil {
			return nil
		}
		k0 := g.r.Intn(3)
		def := []*S{d.effS()}
		if c.canYield && g.r.Bool() {
			def = []*S{d.yieldS(7)}
		}
		// (one clause is empty: its values are matched and nothing happens)
		return []*S{{K: SSwitch, ID: g.id(), E: bin(c.idx(), "%", lit(3)), Cases: []*Case{{Vals: []*X{lit(k0)}, Body: body}, {Vals: []*X{lit((k0 + 1) % 3)}}, {Default: true, Body: def}}}}
	case 8: // type switch with a binding
		d.inSwitch = true
		body := inner(d)
		if body == nil {
			return nil
		}
		tv := fmt.Sprintf("tv%d", g.id())
		return []*S{{K: STypeSwitch, ID: g.id(), Name: tv, E: &X{K: XAny, A: v(c.acc)}, Cases: []*Case{{Types: []string{"int"}, Body: body}, {Default: true, Body: []*S{d.effS()}}}}}
	case 9: // if
		body := inner(d)
		if body == nil {
			return nil
		}
		return []*S{{K: SIf, ID: g.id(), E: c.cond(g.r.Intn(2)), Body: body}}
	case 10: // if ... else
		body := inner(d)
		if body == nil {
			return nil
		}
		return []*S{{K: SIf, ID: g.id(), E: c.cond(g.r.Intn(2)), Body: []*S{d.effS()}, Else: body}}
	case 11: // block
		return seal(wrapBlock(g, inner(d)))
	case 12: // a plain closure called on the spot
		d.canYield, d.inLoop, d.inSwitch, d.genRet = false, false, false, false
		d.ctr = c.ctr
		body := inner(d)
		if body == nil {
			return nil
		}
		name := fmt.Sprintf("pc%d", g.id())
		return []*S{{K: SFuncLit, ID: g.id(), Name: name, NoUse: true, Body: body}, {K: SExpr, ID: g.id(), E: &X{K: XCall, Name: name}}}
	case 13: // a generator literal, delegated to
		if !c.canYield {
			return nil
		}
		d.canYield, d.inLoop, d.inSwitch, d.genRet = true, false, false, true
		body := inner(d)
		if body == nil {
			return nil
		}
		name := fmt.Sprintf("gl%d", g.id())
		// (a literal without any yield would not be a generator at all: it always ends in one)
		return []*S{{K: SFuncLit, ID: g.id(), Name: name, NoUse: true, Gen: true, Elem: "int", Body: append(body, d.yieldS(9), &S{K: SReturn, Nil: true})},
			{K: SYieldFrom, ID: g.id(), E: &X{K: XIterCall, Name: name}}}
	case 14: // nothing around it
		return inner(c)
	case 15, 16, 17, 18: // ranges over a string, a one-entry map, a closed channel, an array value that is not addressable
		i, e := loopVar(), fmt.Sprintf("e%d", g.id())
		d.ctr, d.inLoop, d.inSwitch = i, true, false
		body := inner(d)
		if body == nil {
			return nil
		}
		g.needHelpers = true
		switch k {
		case 15:
			return []*S{{K: SRange, ID: g.id(), Name: i, Name2: e, Op: ":=", E: &X{K: XStr, S: "aé€"}, Body: append([]*S{{K: SUse, Name: i}, {K: SUse, Name: e}}, body...)}}
		case 16:
			return []*S{{K: SRange, ID: g.id(), Name: i, Name2: e, Op: ":=", E: &X{K: XCall, Name: "mkm", Args: []*X{lit(1)}}, Body: append([]*S{{K: SUse, Name: i}, {K: SUse, Name: e}}, body...)}}
		case 17:
			return []*S{{K: SRange, ID: g.id(), Name: i, Op: ":=", E: &X{K: XCall, Name: "mkc", Args: []*X{lit(2)}}, Body: append([]*S{{K: SUse, Name: i}}, body...)}}
		default:
			return []*S{{K: SRange, ID: g.id(), Name: i, Name2: e, Op: ":=", E: &X{K: XCall, Name: "mka", Args: []*X{lit(1)}}, Body: append([]*S{{K: SUse, Name: i}, {K: SUse, Name: e}}, body...)}}
		}
	case 19: // a consumer loop over another generator
		i := loopVar()
		d.ctr, d.inLoop, d.inSwitch = i, true, false
		body := inner(d)
		if body == nil {
			return nil
		}
		return []*S{{K: SRange, ID: g.id(), Name: i, Op: ":=", OverIter: true, E: &X{K: XIterCall, Name: "MH", Args: []*X{lit(2)}}, Body: append([]*S{{K: SUse, Name: i}}, body...)}}
	case 20: // a pull loop over another generator
		it, i := fmt.Sprintf("it%d", g.id()), loopVar()
		d.ctr, d.inLoop, d.inSwitch = i, true, false
		body := inner(d)
		if body == nil {
			return nil
		}
		return []*S{{K: SDecl, ID: g.id(), Name: it, E: &X{K: XIterCall, Name: "MH", Args: []*X{lit(2)}}},
			{K: SFor, ID: g.id(), E: &X{K: XRaw, S: it + ".MoveNext()"}, Body: append([]*S{{K: SDecl, Name: i, E: &X{K: XRaw, S: it + ".Current()"}}}, body...)}}
	}
	panic("bad wrapper")
}

func wrapBlock(g *G, body []*S) []*S {
	if body == nil {
		return nil
	}
	return []*S{{K: SBlock, ID: g.id(), Body: body}}
}

func cat(parts ...[]*S) []*S {
	var out []*S
	for _, p := range parts {
		if p == nil {
			return nil
		}
		out = append(out, p...)
	}
	return out
}

// MatrixProg draws n functions of the matrix (invalid combinations are skipped and redrawn).
func MatrixProg(r *prng.R, n int, profile string) *Prog {
	cfg := baseCfg("control")
	g := &G{r: r, cfg: cfg, prog: &Prog{Pkg: "p"}}
	g.prog.Import = []string{"dot", "co", "renamed"}[r.Intn(3)]
	g.prog.LoadTest = r.Chance(1, 4)
	file := &File{Name: "gen_matrix.go", UsesAPI: true}
	// the delegate of the YieldFrom pieces
	mh := &Func{ID: 0, Name: "MH", Gen: true, Elem: "int", Params: []string{"n"}, Args: [][]int{{0, 1, 2}}, Hidden: true,
		Body: []*S{{K: SFor, Init: &S{K: SDecl, Name: "i", E: lit(0)}, E: bin(v("i"), "<", v("n")), Post: &S{K: SIncDec, Name: "i", Op: "++"},
			Body: []*S{{K: SYield, E: bin(bin(v("n"), "*", lit(100)), "+", v("i"))}}}, {K: SReturn, Nil: true}}}
	file.Funcs = append(file.Funcs, mh)
	for len(file.Funcs) <= n {
		g.feat = map[string]bool{}
		w1, w2 := r.Intn(matrixWrappers), r.Intn(matrixWrappers)
		pre, post := []int{0, 1, 2}[r.Intn(3)], []int{0, 1, 3, 4, 5}[r.Intn(5)]
		p1, p2 := r.Intn(matrixPieces), r.Intn(matrixPieces)
		f := false
		top := &mctx{g: g, acc: "acc", canYield: true, genRet: true, shadowed: &f}
		body := top.wrap(w1, func(c1 *mctx) []*S {
			a := c1.piece(pre)
			mid := c1.wrap(w2, func(c2 *mctx) []*S { return cat(c2.piece(p1), c2.piece(p2)) })
			return cat(a, mid, c1.piece(post))
		})
		if body == nil {
			continue
		}
		id := len(file.Funcs)
		fn := &Func{ID: id, Name: fmt.Sprintf("M%d", id), Gen: true, Elem: "int", Params: []string{"a"}, Args: [][]int{{0, 1, 2, 3, 5}},
			Feat: []string{fmt.Sprintf("matrix_outer_%d", w1), fmt.Sprintf("matrix_inner_%d", w2)}, Calls: []string{"MH"}}
		fn.Body = cat([]*S{{K: SDecl, Name: "acc", E: bin(v("a"), "%", lit(5))}}, body,
			[]*S{{K: SYield, E: v("acc")}, {K: SReturn, Nil: true}})
		file.Funcs = append(file.Funcs, fn)
	}
	g.prog.Files = []*File{file}
	if g.needHelpers {
		g.prog.Files = append(g.prog.Files, &File{Name: "helpers.go", Decls: []string{PickDecl, HelperDecls}})
	}
	_ = profile
	return g.prog
}
