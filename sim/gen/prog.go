package gen

import "hash/fnv"

func Digest(s string) uint64 {
	h := fnv.New64a()
	h.Write([]byte(s))
	return h.Sum64()
}

func (p *Prog) AllFuncs() []*Func {
	var out []*Func
	for _, f := range p.Files {
		out = append(out, f.Funcs...)
		out = append(out, f.Extern...)
	}
	return out
}

func (p *Prog) NumFuncs() int {
	n := 0
	for _, f := range p.AllFuncs() {
		if !f.Hidden {
			n++
		}
	}
	return n
}

func (p *Prog) Find(name string) *Func {
	for _, f := range p.AllFuncs() {
		if f.Name == name {
			return f
		}
	}
	return nil
}

// Closure returns name plus everything it (transitively) references.
func (p *Prog) Closure(name string) map[string]bool {
	out := map[string]bool{}
	var rec func(string)
	rec = func(n string) {
		if out[n] {
			return
		}
		out[n] = true
		if f := p.Find(n); f != nil {
			for _, c := range f.Calls {
				rec(c)
			}
		}
	}
	rec(name)
	return out
}

// DropRaw removes the raw declarations (and their registry entries) of a file.
func (p *Prog) DropRaw(file string) bool {
	for _, f := range p.Files {
		if f.Name == file && (len(f.Decls) > 0 || len(f.Extern) > 0) && len(f.Extern) > 0 {
			f.Decls, f.RefDecls, f.Extern, f.Imports = nil, nil, nil, nil
			// the plain companion file of a template file refers to its declarations
			if comp := map[string]string{"gen_types.go": "plain_rotate.go", "gen_opt.go": "plain_opt.go", "a_gen_opt.go": "plain_opt.go"}[file]; comp != "" {
				for _, c := range p.Files {
					if c.Name == comp {
						c.Decls, c.RefDecls, c.Extern, c.Imports = nil, nil, nil, nil
					}
				}
			}
			return true
		}
	}
	return false
}

// Remove deletes a function and everything that (transitively) references it.
func (p *Prog) Remove(name string) {
	for _, f := range p.Files {
		for _, e := range f.Extern {
			if e.Name == name {
				p.DropRaw(f.Name)
			}
		}
	}
	gone := map[string]bool{name: true}
	for changed := true; changed; {
		changed = false
		for _, f := range p.AllFuncs() {
			if gone[f.Name] {
				continue
			}
			for _, c := range f.Calls {
				if gone[c] {
					gone[f.Name] = true
					changed = true
				}
			}
		}
	}
	for _, file := range p.Files {
		var keep []*Func
		for _, f := range file.Funcs {
			if !gone[f.Name] {
				keep = append(keep, f)
			}
		}
		file.Funcs = keep
	}
}

// Subset is a shallow copy of the program with only the named functions.
func (p *Prog) Subset(keep map[string]bool) *Prog {
	q := &Prog{Pkg: p.Pkg, Import: p.Import, SeqImported: p.SeqImported, LoadTest: p.LoadTest}
	for _, file := range p.Files {
		nf := &File{Name: file.Name, Decls: file.Decls, RefDecls: file.RefDecls, UsesAPI: file.UsesAPI, Extern: file.Extern, Imports: file.Imports}
		for _, f := range file.Funcs {
			if keep[f.Name] {
				nf.Funcs = append(nf.Funcs, f)
			}
		}
		q.Files = append(q.Files, nf)
	}
	return q
}

// ExternOf returns the first registry entry defined by raw declarations of the file.
func (p *Prog) ExternOf(file string) string {
	for _, f := range p.Files {
		if f.Name == file && len(f.Extern) > 0 {
			return f.Extern[0].Name
		}
	}
	return ""
}
