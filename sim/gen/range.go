package gen

import (
	"fmt"
	"strings"
)

const HelperDecls = `func mks(n int) []int {
	s := make([]int, 0, n+2)
	for i := 0; i < n; i++ {
		s = append(s, i*10+1)
	}
	return s
}

func mkm(n int) map[int]int {
	m := map[int]int{}
	for i := 0; i < n; i++ {
		m[i+1] = i*10 + 2
	}
	return m
}

func mkc(n int) chan int {
	c := make(chan int, n+1)
	for i := 0; i < n; i++ {
		c <- i*10 + 3
	}
	close(c)
	return c
}

type small int8

type mystr string

// a map with an entry that no lookup can find (NaN is not equal to itself)
func mkf(n int) map[float64]int {
	m := map[float64]int{}
	if n > 0 {
		m[nan()] = n*10 + 4
	}
	return m
}

func nan() float64 {
	z := 0.0
	return z / z
}

// an array VALUE that is not addressable at the call site
func mka(n int) [3]int { return [3]int{n, n + 10, vrt.V(9100, 30)} }

type wrapw struct{ W [3]int }

// the array is a field of a call result: not addressable, and evaluating the operand has an effect
func mkw(n int) wrapw { return wrapw{[3]int{n, n + 10, vrt.V(9102, 30)}} }

type wide int64

type flag bool

// package-level state declared (and written) in this plain file only
var pkgLevel int

func setLevel(n int) { pkgLevel = n }

const kq = 5

func tick(n int) int { return vrt.V(9000+n%7, n) }`

var strAlphabet = []string{"a", "z", "é", "€", "\U0001F600", "\xff", "\xc3", "\xe2\x82", "\xed\xa0\x80", "\x80", "\xf0\x9f", "\x00",
	"\uFFFD", "\u0080", "\u07ff", "\u0800", "\uffff", "\U00010000", "\U0010FFFF", "\xc0\x80", "\xe0\x80\x80", "\xf4\x90\x80\x80", "\xbf", "\x7f"}

func (c *fctx) randString() string {
	n := c.g.r.Intn(4)
	s := ""
	for i := 0; i < n; i++ {
		s += strAlphabet[c.g.r.Intn(len(strAlphabet))]
	}
	return s
}

func (c *fctx) collName(pool []string) string { return c.fresh(pool) }

// rangeStmt generates a range loop (native collection kinds and, when enabled, consumer
// loops over iterators), preceded by the declaration of the ranged collection if needed.
func (c *fctx) rangeStmt() []*S {
	r := c.g.r
	cfg := c.g.cfg
	type opt struct {
		name string
		w    int
	}
	opts := []opt{}
	if cfg.Ranges {
		opts = append(opts, opt{"slice", 5}, opt{"array", 3}, opt{"string", 4}, opt{"map", 3}, opt{"chan", 2}, opt{"int", 4}, opt{"small", 1}, opt{"mapnan", 1}, opt{"bytestr", 1}, opt{"bound", 1}, opt{"assignidx", 1}, opt{"intcapture", 1}, opt{"nativeswitch", 2})
	}
	if cfg.Consume {
		opts = append(opts, opt{"iter", 6}, opt{"pull", 3})
	}
	if len(opts) == 0 {
		return []*S{c.eff()}
	}
	ws := make([]int, len(opts))
	for i, o := range opts {
		ws[i] = o.w
	}
	kind := opts[r.Pick(ws)].name
	c.g.mark("range_" + kind)
	c.g.needHelpers = true
	if kind == "nativeswitch" {
		// a loop that does NOT yield, with a switch in its body whose cases continue the loop or
		// break out of the switch; the loop itself may sit in a yielding loop
		obs := func(e string) string {
			if c.gen && !c.inLit {
				return "«Yield»(" + e + ")"
			}
			return fmt.Sprintf("vrt.E(%d, %s)", c.g.nextTag(), e)
		}
		head := []string{"for _, x9 := range mks(4)", "for x9 := range 5", "for x9 := 0; x9 < 5; x9++", "for _, x9 := range [4]int{3, 4, 5, 6}", "for x9 = range 4"}[r.Intn(5)]
		pre := "acc9 := 0\n"
		if head == "for x9 = range 4" {
			pre += "x9 := 0\n"
		}
		body := fmt.Sprintf("switch x9 %% 3 {\ncase 1:\n\tcontinue\ncase 2:\n\tif x9 > 3 {\n\t\tbreak\n\t}\n\tacc9 += 100\n}\nacc9 += x9\nvrt.E(%d, x9, acc9)", c.g.nextTag())
		if r.Chance(1, 3) {
			body = fmt.Sprintf("switch v9 := any(x9).(type) {\ncase int:\n\tif v9%%2 == 1 {\n\t\tcontinue\n\t}\n}\nacc9 += x9\nvrt.E(%d, x9, acc9)", c.g.nextTag())
		}
		loop := head + " {\n\t" + replaceAll(body, "\n", "\n\t") + "\n}"
		text := pre + loop + "\n" + obs("acc9")
		if r.Chance(1, 3) {
			text = "for r9 := 0; r9 < 2; r9++ {\n\t" + replaceAll(pre+loop+"\n"+obs("acc9 + r9"), "\n", "\n\t") + "\n}"
		}
		return []*S{{K: SRaw, ID: c.g.id(), Src: "{\n\t" + replaceAll(text, "\n", "\n\t") + "\n}"}}
	}
	if kind == "intcapture" {
		// the variable of a range over an integer is a fresh variable per iteration (the
		// construct exists only with Go >= 1.22 semantics): closures and nested generators
		// created in the body and used AFTER the loop each see their own value
		if !c.gen || c.inLit {
			text := fmt.Sprintf("var fs9 []func() int\nfor k9 := range 3 {\n\tfs9 = append(fs9, func() int { return k9*10 + 1 })\n}\nfor _, f9 := range fs9 {\n\tvrt.E(%d, f9())\n}", c.g.nextTag())
			return []*S{{K: SRaw, ID: c.g.id(), Src: "{\n\t" + replaceAll(text, "\n", "\n\t") + "\n}"}}
		}
		n := r.Range(2, 3)
		var src, ref string
		if r.Bool() {
			src = fmt.Sprintf("var fs9 []func() int\nfor k9 := range %d {\n\tfs9 = append(fs9, func() int { return k9*10 + 1 })\n\t«Yield»(100 + k9)\n}\nfor _, f9 := range fs9 {\n\t«Yield»(f9())\n}", n)
		} else {
			src = fmt.Sprintf("var its9 []«Iter[int]»\nfor k9 := range %d {\n\tits9 = append(its9, func() «Iter[int]» {\n\t\t«Yield»(k9)\n\t\t«Yield»(k9 * 10)\n\t\treturn nil\n\t}())\n\t«Yield»(100 + k9)\n}\nfor _, it9 := range its9 {\n\tfor it9.MoveNext() {\n\t\t«Yield»(it9.Current())\n\t}\n}", n)
			ref = fmt.Sprintf("var its9 []«Iter[int]»\nfor k9 := range %d {\n\tits9 = append(its9, func() «Iter[int]» {\n\t\treturn refco.Go(func(ʏ *refco.Y[int]) {\n\t\t\tʏ.Yield(k9)\n\t\t\tʏ.Yield(k9 * 10)\n\t\t})\n\t}())\n\t«Yield»(100 + k9)\n}\nfor _, it9 := range its9 {\n\tfor it9.MoveNext() {\n\t\t«Yield»(it9.Current())\n\t}\n}", n)
		}
		wrap := func(t string) string { return "{\n\t" + replaceAll(t, "\n", "\n\t") + "\n}" }
		st := &S{K: SRaw, ID: c.g.id(), Src: wrap(src)}
		if ref != "" {
			st.Ref = wrap(ref)
		}
		return []*S{st}
	}
	if kind == "assignidx" {
		// '=' form whose VALUE operand reads the KEY variable: 'for k, dst[k] = range x' is one
		// tuple assignment per iteration, the index is taken before k is updated
		obs := func(e string) string {
			if c.gen && !c.inLit {
				return "«Yield»(" + e + ")"
			}
			return fmt.Sprintf("vrt.E(%d, %s)", c.g.nextTag(), e)
		}
		src := []string{"mks(3)", "[3]int{5, 6, 7}", "mkm(1)", "[]int{4, 9}"}[r.Intn(4)]
		text := fmt.Sprintf("dst9 := map[int]int{}\nk9 := %d\nfor k9, dst9[k9] = range %s {\n\t%s\n}\n%s", r.Intn(2), src, obs("k9"), obs("dst9[0]*10000 + dst9[1]*100 + dst9[2] + k9"))
		if r.Chance(1, 3) {
			text = fmt.Sprintf("var dst9 [8]rune\nk9 := 0\nfor k9, dst9[k9] = range %q {\n\t%s\n}\n%s", "aé€", obs("k9"), obs("int(dst9[0])*3 + int(dst9[1])*5 + int(dst9[3])*7 + k9"))
		}
		return []*S{{K: SRaw, ID: c.g.id(), Src: "{\n\t" + replaceAll(text, "\n", "\n\t") + "\n}"}}
	}
	if kind == "bound" {
		// an integer range whose limit is the largest value of its type (run to the end: the
		// key must not wrap) or does not fit the signed type of the same size (left early)
		obs := func(e string) string {
			if c.gen && !c.inLit {
				return "«Yield»(" + e + ")"
			}
			return fmt.Sprintf("vrt.E(%d, %s)", c.g.nextTag(), e)
		}
		var text string
		switch r.Intn(5) {
		case 0:
			text = fmt.Sprintf("for k9 := range uint8(255) {\n\tif k9 < 253 {\n\t\tcontinue\n\t}\n\t%s\n}", obs("int(k9)"))
		case 1:
			text = fmt.Sprintf("for k9 := range small(127) {\n\tif k9 < 125 {\n\t\tcontinue\n\t}\n\t%s\n}", obs("int(k9)"))
		case 2:
			text = fmt.Sprintf("for k9 := range ^uint64(0) {\n\tif k9 >= 3 {\n\t\tbreak\n\t}\n\t%s\n}", obs("int(k9)"))
		case 3:
			text = fmt.Sprintf("var k9 uint\nfor k9 = range ^uint(0) - 5 {\n\tif k9 >= 2 {\n\t\tbreak\n\t}\n\t%s\n}\n%s", obs("int(k9)"), obs("int(k9) + 40"))
		default:
			text = fmt.Sprintf("for k9 := range uintptr(1) << 63 {\n\tif k9 >= 2 {\n\t\tbreak\n\t}\n\t%s\n}", obs("int(k9)"))
		}
		// in a block of its own: k9 may be declared again by a later statement of this kind
		return []*S{{K: SRaw, ID: c.g.id(), Src: "{\n\t" + replaceAll(text, "\n", "\n\t") + "\n}"}}
	}
	var pre []*S
	d := c.sub()
	d.loops++
	d.sws = 0
	loop := &S{K: SRange, ID: c.g.id(), Op: ":="}
	size := func() *X {
		e := bin(c.pure(1), "%", lit(4))
		if r.Chance(1, 3) {
			c.g.mark("range_expression_effect")
			return &X{K: XV, Tag: c.g.nextTag(), A: e}
		}
		return e
	}
	// variable forms
	form := r.Intn(5) // 0: k,v :=   1: k :=   2: _,v :=   3: none   4: k,v = (outer variables)
	keyInt, valInt := true, true
	coll := ""
	var typedAssignUse *S
	byteStrCall := ""
	switch kind {
	case "slice":
		if vs := c.sc.visible(vSlice); len(vs) > 0 && r.Chance(1, 2) {
			coll = vs[r.Intn(len(vs))]
			loop.E = v(coll)
		} else if r.Chance(1, 2) {
			coll = c.fresh([]string{"s", "s2", "s3"})
			pre = append(pre, &S{K: SDecl, ID: c.g.id(), Name: coll, E: &X{K: XCall, Name: "mks", Args: []*X{size()}}})
			c.sc.declare(coll, vSlice)
			loop.E = v(coll)
		} else {
			loop.E = &X{K: XCall, Name: "mks", Args: []*X{size()}}
		}
	case "array":
		if r.Chance(1, 6) {
			// an array of STRUCTS ranged with a value variable whose only writes are writes to a
			// FIELD of an element (plain, op-assign, inc/dec, through the element's address):
			// the loop still iterates over the copy taken when it started
			id := c.g.id()
			name := fmt.Sprintf("sarr%d", id)
			j := "(i9 + 1) % 3"
			wr := []string{
				fmt.Sprintf("%s[%s].f = p9.f + 100", name, j),
				fmt.Sprintf("%s[%s].f += 100 + i9", name, j),
				fmt.Sprintf("%s[%s].f++", name, j),
				fmt.Sprintf("(&%s[%s]).f = p9.g * 7", name, j),
				fmt.Sprintf("%s[%s].in.h = p9.f + 50", name, j),
			}[r.Intn(5)]
			y := ""
			if c.gen && !c.inLit {
				y = "\t«Yield»(p9.f*10 + p9.in.h + i9)\n"
			}
			order := []string{"%[1]s\t%[2]s\n", "\t%[2]s\n%[1]s"}[r.Intn(2)]
			text := fmt.Sprintf("%[1]s := [3]struct {\n\tf, g int\n\tin struct{ h int }\n}{{f: %[2]s, g: 1}, {f: %[3]s, g: 2}, {f: 30, g: 3}}\nfor i9, p9 := range %[1]s {\n\tvrt.E(%[4]d, p9.f+p9.in.h)\n"+strings.ReplaceAll(fmt.Sprintf(order, y, wr), "%", "%%")+"\tvrt.E(%[5]d, p9.f+p9.g+p9.in.h)\n}\nvrt.E(%[6]d, %[1]s[0].f+%[1]s[1].f*3+%[1]s[2].f*5+%[1]s[0].in.h)",
				name, c.pure(1).str(Mode{}), c.pure(1).str(Mode{}), c.g.nextTag(), c.g.nextTag(), c.g.nextTag())
			c.g.mark("range_array_of_structs_written_by_element_field_only")
			return []*S{{K: SRaw, ID: id, Src: text}}
		}
		coll = c.fresh([]string{"arr", "arr2"})
		pre = append(pre, &S{K: SDecl, ID: c.g.id(), Name: coll, E: &X{K: XRaw, S: fmt.Sprintf("[3]int{%s, %s, 30}", c.pure(1).str(Mode{}), c.pure(1).str(Mode{}))}})
		c.sc.declare(coll, vArr)
		loop.E = v(coll)
		if r.Chance(1, 3) {
			// the operand is an array value that cannot be sliced in place
			pre, coll = nil, ""
			if r.Chance(1, 3) {
				// the operand CONTAINS a call but is not one: it is evaluated (once) even when
				// only the index is used
				loop.E = &X{K: XRaw, S: "mkw(" + c.pure(1).str(Mode{}) + ").W"}
				if r.Bool() {
					form = 1 + 2*r.Intn(2) // index only / no variables
				}
				c.g.mark("range_array_operand_field_of_call_result")
			} else if r.Bool() {
				loop.E = &X{K: XCall, Name: "mka", Args: []*X{c.pure(1)}}
			} else {
				loop.E = &X{K: XRaw, S: fmt.Sprintf("[3]int{%s, %s, 30}", c.pure(1).str(Mode{}), c.pure(1).str(Mode{}))}
			}
			c.g.mark("range_array_operand_not_addressable")
		} else if r.Chance(1, 5) {
			// index-only / variable-free range over an operand that Go does NOT evaluate (len is
			// a constant and the operand contains no call): a dereference of a nil pointer, a
			// field of a nil struct pointer, an element of a nil pointer to an array of arrays
			id := c.g.id()
			var decl, opnd string
			switch r.Intn(3) {
			case 0:
				decl, opnd = fmt.Sprintf("var pz%d *[3]int", id), fmt.Sprintf("*pz%d", id)
			case 1:
				decl, opnd = fmt.Sprintf("var hz%d *struct{ arr [2]int }", id), fmt.Sprintf("hz%d.arr", id)
			default:
				decl, opnd = fmt.Sprintf("var gz%d *[2][3]int", id), fmt.Sprintf("gz%d[1]", id)
			}
			pre, coll = []*S{{K: SRaw, ID: id, Src: decl}}, ""
			loop.E = &X{K: XRaw, S: opnd}
			form = 1 + 2*r.Intn(2)
			c.g.mark("range_array_operand_not_evaluated_nil_pointer_inside")
		}
	case "string":
		valInt = false
		loop.E = &X{K: XStr, S: c.randString()}
		if r.Chance(1, 4) {
			loop.E = &X{K: XRaw, S: fmt.Sprintf("mystr(%q)", c.randString())}
			c.g.mark("range_named_string_type")
		}
		if r.Chance(1, 3) {
			name := c.fresh([]string{"str", "str2"})
			pre = append(pre, &S{K: SDecl, ID: c.g.id(), Name: name, E: loop.E})
			c.sc.declare(name, vStr)
			loop.E = v(name)
		}
	case "map":
		coll = c.fresh([]string{"m", "m2"})
		n := []int{0, 1, 1, 1, 3}[r.Intn(5)]
		if n > 1 && len(c.sc.visible(vInt)) == 0 {
			n = 1
		}
		pre = append(pre, &S{K: SDecl, ID: c.g.id(), Name: coll, E: &X{K: XCall, Name: "mkm", Args: []*X{lit(n)}}})
		c.sc.declare(coll, vMap)
		loop.E = v(coll)
		if n > 1 && r.Chance(1, 3) {
			// a variable-free range whose (non-yielding) first round removes every entry that
			// has not been reached: there is no second round
			head := []string{"for range %s", "for _ = range %s", "for _, _ = range %s"}[r.Intn(3)]
			id := c.g.id()
			text := fmt.Sprintf(head+" {\n\tvrt.E(%d, len(%s))\n\tclear(%s)\n}\nvrt.E(%d, len(%s))", coll, c.g.nextTag(), coll, coll, c.g.nextTag(), coll)
			c.g.mark("range_map_without_variables_cleared_in_its_first_round")
			return append(pre, &S{K: SRaw, ID: id, Src: text})
		}
		if n > 1 {
			// Go randomises the order: only order-insensitive bodies (commutative accumulation)
			c.g.mark("range_map_multi_entry_commutative_body")
			acc := c.sc.visible(vInt)
			if len(acc) == 0 {
				return []*S{c.eff()}
			}
			loop.Name, loop.Name2 = "mk", "mv"
			loop.Body = []*S{{K: SAssign, Name: acc[r.Intn(len(acc))], Op: "+=", E: bin(v("mk"), "+", bin(v("mv"), "*", lit(3)))}}
			return append(pre, loop)
		}
	case "bytestr":
		// range over string(bs) of a byte slice that is overwritten (through copy, which is no
		// assignment to it) while the loop runs: the conversion is a snapshot
		coll = ""
		bs := c.fresh([]string{"bs", "bs2"})
		pre = append(pre, &S{K: SRaw, ID: c.g.id(), Src: fmt.Sprintf("%s := []byte(\"h\\xc3\\xa9llo\")", bs)})
		c.sc.declare(bs, vAny)
		loop.E = &X{K: XRaw, S: "string(" + bs + ")"}
		valInt = false
		pre = append(pre, &S{K: SRaw, ID: c.g.id(), Src: fmt.Sprintf("over%s := func() { copy(%s, \"WORLD!\") }", bs, bs)})
		if form == 3 || form == 4 {
			form = 0
		}
		byteStrCall = "over" + bs + "()"
		c.g.mark("range_over_string_conversion_of_a_byte_slice_overwritten_in_the_body")
		switch r.Intn(3) {
		case 1:
			// a string VARIABLE re-assigned in the body: the operand was evaluated once
			pre = []*S{{K: SRaw, ID: c.g.id(), Src: fmt.Sprintf("%s := \"h\\xc3\\xa9llo\"", bs)}}
			loop.E = &X{K: XRaw, S: bs}
			byteStrCall = bs + " = \"xy\""
			c.g.mark("range_over_a_string_variable_reassigned_in_the_body")
		case 2:
			// an integer limit variable changed in the body
			pre = []*S{{K: SRaw, ID: c.g.id(), Src: fmt.Sprintf("%s := 3", bs)}}
			loop.E = &X{K: XRaw, S: bs}
			byteStrCall = bs + " += 2"
			keyInt, valInt = true, true
			if form == 0 || form == 2 || form == 4 {
				form = 1
			}
			c.g.mark("range_over_an_integer_variable_changed_in_the_body")
		}
	case "mapnan":
		keyInt = false
		loop.E = &X{K: XCall, Name: "mkf", Args: []*X{lit(r.Intn(2))}}
	case "chan":
		loop.E = &X{K: XCall, Name: "mkc", Args: []*X{size()}}
		if form == 0 || form == 2 || form == 4 {
			form = 1 // a channel range has one variable
		}
	case "int":
		loop.E = bin(c.pure(1), "%", lit(4)) // also <= 0
		if r.Chance(1, 4) {
			loop.E = lit(r.Range(-1, 4))
		}
		if form == 0 || form == 2 || form == 4 {
			form = 1
		}
	case "small":
		keyInt = false
		loop.E = &X{K: XRaw, S: fmt.Sprintf("small(%d)", r.Range(0, 3))}
		form = 1
		if r.Chance(1, 2) {
			// '=' form onto an outer variable of a sized / named integer type with an untyped
			// constant limit: the limit takes the variable's type
			ty := []string{"int64", "uint8", "wide", "small"}[r.Intn(4)]
			w := c.fresh([]string{"wq", "wq2"})
			pre = append(pre, &S{K: SRaw, ID: c.g.id(), Src: fmt.Sprintf("var %s %s", w, ty)})
			c.sc.declare(w, vAny)
			loop.E = lit(r.Range(0, 3))
			loop.Name, loop.Op = w, "="
			form = 5
			name := d.fresh(intPool)
			typedAssignUse = &S{K: SDecl, Name: name, E: &X{K: XRaw, S: "int(" + w + ")"}}
			d.sc.declare(name, vInt)
			c.g.mark("range_int_assign_form_typed_variable_constant_limit")
		}
	case "iter", "pull":
		return c.consumerLoop(kind == "pull")
	}
	key := d.fresh([]string{"k", "i2", "k2"})
	val := d.fresh([]string{"v", "e", "v2"})
	declare := func(name string, isInt bool) {
		if isInt {
			d.sc.declare(name, vRO)
		} else {
			d.sc.declare(name, vAny)
		}
	}
	switch form {
	case 0:
		loop.Name, loop.Name2 = key, val
		declare(key, keyInt)
		declare(val, valInt)
	case 1:
		loop.Name = key
		declare(key, keyInt)
	case 2:
		loop.Name, loop.Name2 = "_", val
		declare(val, valInt)
	case 3:
		c.g.mark("range_no_variables")
	case 4:
		outs := c.sc.visible(vInt)
		if len(outs) < 2 || !valInt || !keyInt {
			loop.Name = key
			declare(key, keyInt)
		} else {
			p := r.Perm(len(outs))
			loop.Name, loop.Name2, loop.Op = outs[p[0]], outs[p[1]], "="
			c.g.mark("range_assign_form")
			// exactly one variable: 'for k = range x' / 'for _, v = range x'
			switch r.Intn(3) {
			case 1:
				loop.Name2 = ""
				c.g.mark("range_assign_form_key_only")
			case 2:
				loop.Name = "_"
				c.g.mark("range_assign_form_value_only")
			}
		}
	}
	// an '=' form assigns to variables that exist before and after the loop: a closure created
	// before the loop sees every per-iteration assignment, and the last one survives the loop
	var assignPre, assignIn, assignPost *S
	if loop.Op == "=" {
		var reads []string
		for _, n := range []string{loop.Name, loop.Name2} {
			if n != "" && n != "_" {
				reads = append(reads, "int("+n+")")
			}
		}
		id := c.g.id()
		assignPre = &S{K: SRaw, ID: id, Src: fmt.Sprintf("seen%d := func() int { return %s }", id, strings.Join(reads, "*31 + "))}
		assignIn = &S{K: SRaw, ID: c.g.id(), Src: fmt.Sprintf("vrt.E(%d, seen%d())", c.g.nextTag(), id)}
		assignPost = &S{K: SRaw, ID: c.g.id(), Src: fmt.Sprintf("vrt.E(%d, seen%d(), %s)", c.g.nextTag(), id, strings.Join(reads, ", "))}
		pre = append(pre, assignPre)
	}
	var body []*S
	if typedAssignUse != nil {
		body = append(body, typedAssignUse)
	}
	if loop.Op == ":=" {
		for _, n := range []string{loop.Name, loop.Name2} {
			if n != "" && n != "_" {
				body = append(body, &S{K: SUse, Name: n})
			}
		}
	}
	if !valInt && loop.Name2 != "" && loop.Name2 != "_" {
		// rune value: make it usable as an int
		name := d.fresh(intPool)
		body = append(body, &S{K: SDecl, Name: name, E: &X{K: XRaw, S: "int(" + loop.Name2 + ")"}})
		d.sc.declare(name, vInt)
	}
	if !keyInt && loop.Name != "" && loop.Name != "_" && kind != "mapnan" && form != 5 {
		name := d.fresh(intPool)
		body = append(body, &S{K: SDecl, Name: name, E: &X{K: XRaw, S: "int(" + loop.Name + ")"}})
		d.sc.declare(name, vInt)
	}
	mutExpr := d.pure(1).str(Mode{}) // drawn before the body: may only read what is in scope at the loop head
	inner := d.stmts(1 + r.Intn(3))
	if loop.Op == ":=" && valInt && loop.Name2 != "" && loop.Name2 != "_" && r.Chance(1, 5) {
		// the VALUE variable is captured and then re-declared, at the top level of the body, by
		// a ':=' that also declares another new variable; in half of the cases the body does
		// not yield at all
		id := c.g.id()
		text := fmt.Sprintf("get%[1]d := func() int { return %[2]s }\n%[2]s, ok%[1]d := %[2]s+100, true\n_ = ok%[1]d\nvrt.E(%[3]d, get%[1]d(), %[2]s)", id, loop.Name2, c.g.nextTag())
		if r.Bool() {
			inner = nil
		}
		inner = append([]*S{{K: SRaw, ID: id, Src: text}}, inner...)
		c.g.mark("range_value_variable_captured_then_redeclared_by_mixed_define")
	}
	// mutation of the ranged collection during the loop
	if coll != "" && r.Chance(1, 2) {
		var mut *S
		e := mutExpr
		switch kind {
		case "slice":
			switch r.Intn(3) {
			case 0:
				j := r.Intn(4)
				mut = &S{K: SRaw, Src: fmt.Sprintf("if len(%s) > %d {\n\t%s[%d] = %s\n}", coll, j, coll, j, e)}
			case 1:
				mut = &S{K: SRaw, Src: fmt.Sprintf("%s = append(%s, %s)", coll, coll, e)}
			default:
				mut = &S{K: SRaw, Src: fmt.Sprintf("%s = %s[:len(%s)/2]", coll, coll, coll)}
			}
			c.g.mark("range_slice_mutated_in_body")
		case "array":
			if r.Bool() {
				// every write to the array stands textually BEFORE the loop, inside a closure that
				// the body calls
				id := c.g.id()
				pre = append(pre, &S{K: SRaw, ID: id, Src: fmt.Sprintf("put%d := func(i, v int) { %s[i] = v }", id, coll)})
				mut = &S{K: SRaw, Src: fmt.Sprintf("put%d(%d, %s)", id, r.Intn(3), e)}
				c.g.mark("range_array_written_through_a_closure_declared_before_the_loop")
			} else if r.Bool() {
				// the only writes to the array are '++' / '--' on elements
				mut = &S{K: SRaw, Src: fmt.Sprintf("%s[%d]++\n%s[%d]--", coll, r.Intn(3), coll, r.Intn(3))}
				c.g.mark("range_array_written_by_element_incdec_only")
			} else {
				mut = &S{K: SRaw, Src: fmt.Sprintf("%s[%d] = %s", coll, r.Intn(3), e)}
				c.g.mark("range_array_mutated_in_body")
			}
		case "map":
			if r.Bool() {
				mut = &S{K: SRaw, Src: fmt.Sprintf("delete(%s, %d)", coll, 1+r.Intn(2))}
			} else {
				mut = &S{K: SRaw, Src: fmt.Sprintf("if _, ok := %s[1]; ok {\n\t%s[1] = %s\n}", coll, coll, e)}
			}
			c.g.mark("range_map_mutated_in_body")
		}
		if mut != nil {
			mut.ID = c.g.id()
			pos := r.Intn(len(inner) + 1)
			if strings.HasPrefix(mut.Src, "put") {
				pos = 0 // the only use of the closure: keep it live (never behind a jump of the body)
			}
			inner = append(inner[:pos:pos], append([]*S{mut}, inner[pos:]...)...)
		}
	}
	if c.gen && !c.inLit && r.Chance(1, 6) {
		// the body starts with a yielding switch that is left by break (after a yield), by
		// continue (which must skip the rest of the iteration) or normally
		w := ""
		if keyInt && loop.Name != "" && loop.Name != "_" {
			w = loop.Name
		} else if valInt && loop.Name2 != "" && loop.Name2 != "_" {
			w = loop.Name2
		}
		if w != "" {
			id := c.g.id()
			text := fmt.Sprintf("switch {\ncase int(%[1]s)%%3 == 0:\n\t«Yield»(int(%[1]s) + 300)\n\tif int(%[1]s) > 1 {\n\t\tbreak\n\t}\n\tvrt.E(%[2]d, int(%[1]s))\ncase int(%[1]s)%%3 == 1:\n\tcontinue\ndefault:\n\t«Yield»(-int(%[1]s))\n}\nvrt.E(%[3]d, int(%[1]s))", w, c.g.nextTag(), c.g.nextTag())
			body = append(body, &S{K: SRaw, ID: id, Src: text})
			c.g.mark("range_body_yielding_switch_left_by_break_continue_and_normally")
		}
	}
	if assignIn != nil {
		body = append([]*S{assignIn}, body...)
	}
	if byteStrCall != "" {
		body = append([]*S{{K: SRaw, ID: c.g.id(), Src: byteStrCall}}, body...)
	}
	// ':=' form: every iteration has its own variables. Closures that capture them escape the
	// iteration (collected in a slice) and are called after the loop has finished; one of them
	// also writes its variable, which only that iteration's other closure sees
	var escPre, escPost *S
	if loop.Op == ":=" && r.Chance(1, 4) {
		var reads []string
		if keyInt && loop.Name != "" && loop.Name != "_" {
			reads = append(reads, loop.Name)
		}
		if valInt && loop.Name2 != "" && loop.Name2 != "_" {
			reads = append(reads, loop.Name2)
		}
		if len(reads) > 0 {
			id := c.g.id()
			escPre = &S{K: SRaw, ID: id, Src: fmt.Sprintf("var esc%d []func() int", id)}
			w := reads[r.Intn(len(reads))]
			body = append(body, &S{K: SRaw, ID: c.g.id(), Src: fmt.Sprintf("esc%[1]d = append(esc%[1]d, func() int { return %[2]s }, func() int { %[3]s += 1000; return %[3]s })", id, strings.Join(reads, "*31 + "), w)})
			escPost = &S{K: SRaw, ID: c.g.id(), Src: fmt.Sprintf("for i9 := len(esc%[1]d) - 1; i9 >= 0; i9-- {\n\tvrt.E(%[2]d, i9, esc%[1]d[i9]())\n}\nfor _, f9 := range esc%[1]d {\n\tvrt.E(%[3]d, f9())\n}", id, c.g.nextTag(), c.g.nextTag())}
			pre = append(pre, escPre)
			c.g.mark("range_define_form_closures_over_the_variables_escape_the_iteration")
		}
	}
	loop.Body = append(body, inner...)
	if hasYield(loop.Body) {
		c.g.mark("range_body_yields")
	}
	if form == 5 {
		// the variable keeps the last key after the loop
		after := c.fresh(intPool)
		c.sc.declare(after, vInt)
		return append(pre, loop, assignPost, &S{K: SDecl, ID: c.g.id(), Name: after, E: &X{K: XRaw, S: "int(" + loop.Name + ")"}})
	}
	if assignPost != nil {
		return append(pre, loop, assignPost)
	}
	if escPost != nil {
		return append(pre, loop, escPost)
	}
	return append(pre, loop)
}

// consumerLoop: `for v := range <iterator>` (or pull style) over a generator of the batch,
// a nested generator literal, or an iterator variable.
func (c *fctx) consumerLoop(pull bool) []*S {
	r := c.g.r
	src := c.iterExpr()
	if src == nil {
		return []*S{c.eff()}
	}
	d := c.sub()
	d.loops++
	d.sws = 0
	val := d.fresh([]string{"v", "e", "v2"})
	if pull {
		it := c.fresh([]string{"it", "it2", "it3"})
		decl := &S{K: SDecl, ID: c.g.id(), Name: it, E: src}
		c.sc.declare(it, vIter)
		loop := &S{K: SFor, ID: c.g.id(), E: &X{K: XRaw, S: it + ".MoveNext()"}}
		d.sc.declare(val, vRO)
		loop.Body = append([]*S{{K: SDecl, Name: val, E: &X{K: XRaw, S: it + ".Current()"}}}, d.stmts(1+r.Intn(3))...)
		c.g.mark("consumer_pull_loop")
		return []*S{decl, loop}
	}
	loop := &S{K: SRange, ID: c.g.id(), Op: ":=", OverIter: true, E: src}
	if r.Chance(1, 8) {
		// for range it { ... }: no loop variable
		loop.Body = d.stmts(1 + r.Intn(3))
		c.g.mark("consumer_range_without_variable")
		return []*S{loop}
	}
	outs := c.sc.visible(vInt)
	if len(outs) > 0 && r.Chance(1, 4) {
		loop.Name, loop.Op = outs[r.Intn(len(outs))], "="
		c.g.mark("consumer_range_assign_form")
	} else {
		loop.Name = val
		d.sc.declare(val, vRO)
	}
	redecl := c.g.cfg.Quar["redeclare"] == false && r.Chance(1, 5)
	if redecl {
		d.sc.declare(loop.Name, vInt) // the body's own variable of that name
	}
	loop.Body = d.stmts(1 + r.Intn(3))
	if redecl {
		// the body re-declares the loop variable at its top level
		loop.Body = append([]*S{{K: SDecl, Name: loop.Name, E: bin(v(loop.Name), "+", lit(1))}}, loop.Body...)
		c.g.mark("consumer_body_redeclares_loop_variable")
	}
	if loop.Op == ":=" && !redecl && r.Chance(1, 4) {
		// the loop variable is captured (closure / pointer) and THEN re-declared by a ':=' that
		// also declares another new variable: the capture keeps seeing the loop variable
		id := c.g.id()
		var text string
		if r.Bool() {
			text = fmt.Sprintf("get%[1]d := func() int { return %[2]s }\n%[2]s, ok%[1]d := %[2]s+100, true\n_ = ok%[1]d\nvrt.E(%[3]d, get%[1]d(), %[2]s)", id, loop.Name, c.g.nextTag())
		} else {
			text = fmt.Sprintf("ptr%[1]d := &%[2]s\n%[2]s, ok%[1]d := %[2]s*2, true\n_ = ok%[1]d\nvrt.E(%[3]d, *ptr%[1]d, %[2]s)", id, loop.Name, c.g.nextTag())
		}
		loop.Body = append([]*S{{K: SRaw, ID: id, Src: text}}, loop.Body...)
		c.g.mark("consumer_loop_variable_captured_then_redeclared_by_mixed_define")
	}
	if loop.Op == ":=" {
		loop.Body = append([]*S{{K: SUse, Name: loop.Name}}, loop.Body...)
	}
	c.g.mark("consumer_range_loop")
	return []*S{loop}
}

// iterExpr returns an expression producing a (finite) iterator.
func (c *fctx) iterExpr() *X {
	r := c.g.r
	if its := c.sc.visible(vIter); len(its) > 0 && r.Chance(1, 4) {
		c.g.mark("iterator_variable_reused")
		return v(its[r.Intn(len(its))])
	}
	if gs := c.sc.visible(vGenLit); len(gs) > 0 && r.Chance(1, 2) {
		return &X{K: XIterCall, Name: gs[r.Intn(len(gs))], Args: []*X{c.pure(1)}}
	}
	var cands []*Func
	for _, f := range c.g.funcs {
		if f.Gen && !f.Inf && f.Recv == "" && !f.TParam && f.Elem == "int" {
			cands = append(cands, f)
		}
	}
	if len(cands) == 0 {
		return nil
	}
	f := cands[r.Intn(len(cands))]
	call := &X{K: XIterCall, Name: f.Name}
	for i := range f.Params {
		call.Args = append(call.Args, lit(f.Args[i][r.Intn(len(f.Args[i]))]))
	}
	c.g.feat["CALL:"+f.Name] = true
	return call
}
