package gen

import (
	"fmt"
	"strings"

	"verif/sim/prng"
)

// consumerTemplates: hand-written declarations that put the iterator type in every syntactic
// position C06 names (results, parameters, struct fields, map values, slices, closures, type
// arguments, generic and method generators) and mix pull-style and range-style consumption
// on one iterator value. Knobs are drawn per batch. src and ref differ only in the marked
// places («Iter[T]», «Yield», «RANGE(x)») and in the refco.Go wrapping of generator bodies.
func consumerTemplates(r *prng.R, tag func() int) (src, ref []string, funcs []*Func, plain []string, plainFuncs []*Func) {
	k1, k2, k3 := r.Range(1, 3), r.Range(0, 4), r.Range(2, 5)
	brk := r.Range(0, 4)
	common := fmt.Sprintf(`type Box struct {
	It «Iter[int]»
	N  int
}

type Pair[A, B any] struct {
	Fst A
	Snd B
}

type Rcv struct{ base int }

func drainAll(it «Iter[int]») int {
	s := 0
	for it.MoveNext() {
		s = s*3 + it.Current()
		vrt.E(%d, s)
	}
	return s
}

func firstN[T any](it «Iter[T]», n int) []T {
	var out []T
	for v := range «RANGE(it)» {
		if len(out) >= n {
			break
		}
		out = append(out, v)
	}
	return out
}
`, tag())
	genSrc := fmt.Sprintf(`func GenT[T any](xs []T, stop int) «Iter[T]» {
	for i, x := range xs {
		if i == stop {
			return nil
		}
		vrt.E(%[1]d, i)
		«Yield»(x)
	}
	return nil
}

func (r Rcv) Gen(n int) «Iter[int]» {
	for i := 0; i < n; i++ {
		vrt.E(%[2]d, r.base, i)
		«Yield»(r.base + i)
	}
	return nil
}

func (r *Rcv) GenPtr(n int) (_ «Iter[int]») {
	for n > 0 {
		n--
		r.base++
		«Yield»(r.base)
	}
	return
}

// declarations that share a NAME: a generator function and a plain forwarding method, a
// generator method and a plain forwarding function, generator and plain methods of two types
type Tree struct{ vals []int }

func Walk(t *Tree) «Iter[int]» {
	for _, v := range t.vals {
		«Yield»(v)
	}
	return nil
}

func (t *Tree) Walk() «Iter[int]» { return Walk(t) }

func (t *Tree) Items(k int) «Iter[int]» {
	for _, v := range t.vals {
		«Yield»(v + k)
	}
	return nil
}

func Items(t *Tree, k int) «Iter[int]» { return t.Items(k) }

func (r Rcv) Items(k int) «Iter[int]» { return (&Tree{[]int{r.base, k}}).Items(1) }

// the element type of a generator is itself the iterator type, written out
func GenOfGens(n int) «Iter[«Iter[int]»]» {
	for i := 0; i < n; i++ {
		«Yield»((Rcv{i * 10}).Gen(2))
	}
	return nil
}

// delegation to a parameter whose declared type is an alias of the iterator type
func GenViaAlias(it IntIt, k int) «Iter[int]» {
	«YieldFrom»(it)
	for v := range «RANGE(it)» { // exhausted by now
		«Yield»(v)
	}
	«Yield»(k)
	return nil
}

// a package-level iterator variable that no statement of THIS file writes
var pkgSrc «Iter[int]»

func GenOverPkgVar(k int) «Iter[int]» {
	for v := range «RANGE(pkgSrc)» { // the operand is evaluated once, when the loop starts
		vrt.E(%[3]d, v)
		«Yield»(v*2 + k)
	}
	return nil
}
`, tag(), tag(), tag())
	// the same bodies wrapped for the reference
	genRef := strings.NewReplacer(
		"func GenT[T any](xs []T, stop int) «Iter[T]» {\n", "func GenT[T any](xs []T, stop int) «Iter[T]» {\n\treturn refco.Go(func(ʏ *refco.Y[T]) {\n",
		"func (r Rcv) Gen(n int) «Iter[int]» {\n", "func (r Rcv) Gen(n int) «Iter[int]» {\n\treturn refco.Go(func(ʏ *refco.Y[int]) {\n",
		"func (r *Rcv) GenPtr(n int) (_ «Iter[int]») {\n", "func (r *Rcv) GenPtr(n int) «Iter[int]» {\n\treturn refco.Go(func(ʏ *refco.Y[int]) {\n",
		"func GenOverPkgVar(k int) «Iter[int]» {\n", "func GenOverPkgVar(k int) «Iter[int]» {\n\treturn refco.Go(func(ʏ *refco.Y[int]) {\n",
		"func GenOfGens(n int) «Iter[«Iter[int]»]» {\n", "func GenOfGens(n int) «Iter[«Iter[int]»]» {\n\treturn refco.Go(func(ʏ *refco.Y[«Iter[int]»]) {\n",
		"func Walk(t *Tree) «Iter[int]» {\n", "func Walk(t *Tree) «Iter[int]» {\n\treturn refco.Go(func(ʏ *refco.Y[int]) {\n",
		"func (t *Tree) Items(k int) «Iter[int]» {\n", "func (t *Tree) Items(k int) «Iter[int]» {\n\treturn refco.Go(func(ʏ *refco.Y[int]) {\n",
		"func GenViaAlias(it IntIt, k int) «Iter[int]» {\n", "func GenViaAlias(it IntIt, k int) «Iter[int]» {\n\treturn refco.Go(func(ʏ *refco.Y[int]) {\n",
		"\treturn nil\n}\n", "\treturn\n\t})\n}\n",
		"\treturn\n}\n", "\treturn\n\t})\n}\n",
		"\t\t\treturn nil\n", "\t\t\treturn\n",
	).Replace(genSrc)
	users := fmt.Sprintf(`func UseTypes(a, b int) int {
	rc := &Rcv{base: %[1]d}
	bx := Box{It: Rcv{10}.Gen(a), N: %[2]d}
	m := map[string]«Iter[int]»{"x": rc.GenPtr(b), "y": GenT([]int{7, 8, 9}, %[3]d)}
	s := []«Iter[int]»{GenT([]int{1, 2, 3, 4}, -1), bx.It}
	p := Pair[«Iter[int]», int]{Fst: m["x"], Snd: 1}
	mk := func() «Iter[int]» { return s[0] }
	sum := 0
	for v := range «RANGE(mk())» {
		vrt.E(%[4]d, v)
		if v == %[5]d {
			break
		}
		sum += v
	}
	// the same iterator again, pull style: continues after the element the loop stopped at
	it := s[0]
	if it.MoveNext() {
		sum = sum*10 + it.Current()
	}
	sum = sum*10 + drainAll(p.Fst)
	for v := range «RANGE(s[1])» {
		if v%%2 == 0 {
			continue
		}
		sum += v
	}
	var chained «Iter[int]» = m["y"]
	for _, v := range firstN(chained, bx.N) {
		sum = sum*7 + v
	}
	strs := firstN(GenT([]string{"p", "q", "r"}, -1), 2)
	return vrt.V(%[6]d, sum+len(strs))
}

func UseRebind(a, b int) int {
	it := (Rcv{100}).Gen(a)
	next := func() bool { return it.MoveNext() } // pull helpers over an iterator variable ...
	cur := func() int { return it.Current() }
	sum := 0
	if next() {
		sum = cur()
	}
	it, limit := (Rcv{200}).Gen(b), 2 // ... that a redeclaring ':=' rebinds
	for v := range «RANGE(it)» {
		sum = sum*10 + v
		limit--
		if limit == 0 {
			break
		}
	}
	for next() {
		sum = sum*10 + cur()
	}
	return vrt.V(%[10]d, sum)
}

type lnode struct {
	val  int
	next *lnode
}

// '=' form with loop variables that are not identifiers: the operand is evaluated anew
// for every element
func UseAssignTargets(a, b int) int {
	xs := make([]int, 4)
	i := 0
	for xs[i] = range «RANGE((Rcv{10}).Gen(3))» {
		i++
	}
	n3 := &lnode{}
	n2 := &lnode{next: n3}
	n1 := &lnode{next: n2}
	p := n1
	for p.val = range «RANGE((Rcv{a}).Gen(3))» {
		p = p.next
	}
	var box struct{ last int }
	for box.last = range «RANGE((Rcv{b}).Gen(2))» {
	}
	q := &xs[3]
	for *q = range «RANGE((Rcv{b + 1}).Gen(2))» {
		q = &xs[0]
	}
	return vrt.V(%[11]d, xs[0]*1000+xs[1]*100+xs[2]*10+xs[3]+n1.val*7+n2.val*11+n3.val*13+box.last)
}

func UseNested(a, b int) int {
	total := 0
	for v := range «RANGE((Rcv{a}).Gen(3))» {
		for w := range «RANGE((Rcv{v}).Gen(b %% 3))» {
			vrt.E(%[7]d, v, w)
			if w > v+%[8]d {
				break
			}
			total += w
		}
		if v == a+1 {
			continue
		}
		total += v
	}
	return vrt.V(%[9]d, total)
}
`, k1, k3, k2-1, tag(), brk, tag(), tag(), k1-1, tag(), tag(), tag())
	// an alias of the iterator type (a types.Alias node for a tool built in a module that
	// says go >= 1.23) as variable, field and parameter type, ranged and pulled
	alias := fmt.Sprintf(`type IntIt = «Iter[int]»

// an alias of the alias
type IntIt2 = IntIt

type aliasBox struct{ it IntIt }

func drainAlias2(it IntIt2) int {
	s := 0
	for v := range «RANGE(it)» {
		s = s*7 + v
	}
	return s
}

func drainAlias(it IntIt, stop int) int {
	s := 0
	for v := range «RANGE(it)» {
		s = s*7 + v
		if v == stop {
			break
		}
	}
	return s
}

func UseAlias(a, b int) int {
	var g IntIt = (Rcv{a}).Gen(3)
	bx := aliasBox{g}
	s := drainAlias(bx.it, a+b%%3)
	vrt.E(%d, s)
	for v := range «RANGE(bx.it)» {
		s = s*7 + v
	}
	var rest IntIt = GenViaAlias(GenT([]int{a, b, a + b}, 2), b)
	var chain IntIt2 = (Rcv{b}).Gen(2)
	s = s*7 + drainAlias2(GenViaAlias(chain, a))
	for rest.MoveNext() {
		s = s*7 + rest.Current()
	}
	return vrt.V(%d, s)
}
`, tag(), tag())
	sameName := fmt.Sprintf(`func UseSameName(a, b int) int {
	t := &Tree{[]int{a, b, a + b}}
	s := drainAll(t.Walk())
	for v := range «RANGE(Walk(t))» {
		s = s*5 + v
		if v == b {
			break
		}
	}
	it := Items(t, 1)
	if it.MoveNext() {
		s = s*5 + it.Current()
	}
	for v := range «RANGE(it)» {
		s = s*5 + v
	}
	return vrt.V(%d, s+drainAll((Rcv{a}).Items(b)))
}
`, tag())
	sameName += fmt.Sprintf(`
func UseGenOfGens(a, b int) int {
	s := 0
	var kept []«Iter[int]»
	for it := range «RANGE(GenOfGens(3))» {
		if it.MoveNext() {
			s = s*5 + it.Current()
		}
		for v := range «RANGE(it)» {
			s = s*5 + v
			if v == a {
				break
			}
		}
		kept = append(kept, it)
	}
	for _, it := range kept {
		s = s*5 + drainAll(it)
	}
	// the drain idiom: no variable, empty body - every element is still pulled
	dr := (Rcv{a}).Gen(3)
	for range «RANGE(dr)» {
	}
	if dr.MoveNext() {
		s = s*5 + dr.Current()
	}
	return vrt.V(%d, s+b)
}
`, tag())
	src = []string{common, genSrc, users, alias, sameName}
	ref = []string{common, genRef, users, alias, sameName}
	small := []int{-1, 0, 1, 2, 3, 5}
	funcs = []*Func{
		{Name: "UseTypes", Params: []string{"a", "b"}, Args: [][]int{small, small}, Feat: []string{"iterator_in_struct_map_slice_closure_typearg", "generic_generator", "method_generator", "mixed_pull_and_range_on_one_iterator"}},
		{Name: "UseRebind", Params: []string{"a", "b"}, Args: [][]int{small, small}, Feat: []string{"pull_helper_closures_over_rebound_iterator_variable"}},
		{Name: "UseNested", Params: []string{"a", "b"}, Args: [][]int{small, small}, Feat: []string{"nested_consumer_ranges"}},
		{Name: "UseAlias", Params: []string{"a", "b"}, Args: [][]int{small, small}, Feat: []string{"alias_of_the_iterator_type_as_variable_field_and_parameter_type"}},
		{Name: "UseGenOfGens", Params: []string{"a", "b"}, Args: [][]int{small, small}, Feat: []string{"generator_whose_element_type_is_the_iterator_type_written_out"}},
		{Name: "UseSameName", Params: []string{"a", "b"}, Args: [][]int{small, small}, Feat: []string{"generator_and_plain_forwarder_declared_under_one_name"}},
		{Name: "UseAssignTargets", Params: []string{"a", "b"}, Args: [][]int{small, small}, Feat: []string{"consumer_range_assign_form_onto_index_field_and_pointer_operands"}},
	}
	// a plain file of the package (it does not mention the API): the writes to pkgSrc live here
	plain = []string{fmt.Sprintf(`func UseRotate(a, b int) int {
	pkgSrc = (Rcv{10}).Gen(3)
	g := GenOverPkgVar(a)
	sum := 0
	if g.MoveNext() {
		sum = g.Current()
	}
	pkgSrc = (Rcv{100}).Gen(b %% 3) // re-assigned between two pulls of g: g's loop must not notice
	for g.MoveNext() {
		sum = sum*10 + g.Current()
	}
	for pkgSrc.MoveNext() { // untouched by g
		sum = sum*10 + pkgSrc.Current()
	}
	return vrt.V(%d, sum)
}
`, tag())}
	plainFuncs = []*Func{{Name: "UseRotate", Params: []string{"a", "b"}, Args: [][]int{small, small}, Feat: []string{"range_over_package_level_iterator_variable_reassigned_in_another_file"}}}
	return
}

// delegTemplates: YieldFrom / range operands that are not plain identifiers or calls (field
// paths, index and map-element expressions, a dereference, a field of a field): each denotes
// ONE iterator value, read when the statement is reached; the consumer re-installs every
// one of those storage locations between two pulls of a running delegation, which must not
// notice. A second generator of the same storage shows that the new values are really there.
func delegTemplates(r *prng.R, tag func() int) (src, ref []string, funcs []*Func) {
	common := `type feed struct {
	cur «Iter[int]»
	all []«Iter[int]»
	byk map[int]«Iter[int]»
	nxt *feed
	base int
}

func slot(k int) int { return ((k % 2) + 2) % 2 }
`
	genSrc := fmt.Sprintf(`func dnums(from, n int) «Iter[int]» {
	for i := 0; i < n; i++ {
		vrt.E(%[1]d, from+i)
		«Yield»(from + i)
	}
	return nil
}

func (f *feed) drain(k int) «Iter[int]» {
	«YieldFrom»(f.cur)
	«Yield»(-1)
	«YieldFrom[int]»(f.all[slot(k)]) // type argument written out
	«Yield[int]»(-2)
	«YieldFrom»(f.byk[slot(k)])
	«Yield»(-3)
	«YieldFrom»(f.nxt.cur)
	«Yield»(-4)
	for v := range «RANGE((*f).all[1-slot(k)])» {
		«Yield»(v + 1000)
	}
	«YieldFrom»((*f).cur) // exhausted, or what the consumer has installed meanwhile
	return nil
}

// the operand is a dereference of a pointer variable: '*p' is read once, when the statement
// is reached; the consumer re-points what p points to in the middle of the delegation
func drainPtr(p *«Iter[int]», k int) «Iter[int]» {
	«YieldFrom»(*p)
	«Yield»(k)
	for v := range «RANGE((*p))» {
		«Yield»(v + 1)
	}
	return nil
}

// a generator that only forwards: its single statement delegates to a generator call whose
// operands are plain field reads; they are read when the statement is reached (first
// advance), not when fwdNums is called
func fwdNums(f *feed, n int) (_ «Iter[int]») {
	«YieldFrom»(dnums(f.base, n))
	return
}

func (f feed) drainByValue(k int) «Iter[int]» {
	for v := range «RANGE(f.cur)» {
		vrt.E(%[2]d, v)
		«Yield»(v * 2)
	}
	«YieldFrom»(f.nxt.all[slot(k)]) // f is a copy, f.nxt is shared
	return nil
}
`, tag(), tag())
	genRef := strings.NewReplacer(
		"func dnums(from, n int) «Iter[int]» {\n", "func dnums(from, n int) «Iter[int]» {\n\treturn refco.Go(func(ʏ *refco.Y[int]) {\n",
		"func (f *feed) drain(k int) «Iter[int]» {\n", "func (f *feed) drain(k int) «Iter[int]» {\n\treturn refco.Go(func(ʏ *refco.Y[int]) {\n",
		"func (f feed) drainByValue(k int) «Iter[int]» {\n", "func (f feed) drainByValue(k int) «Iter[int]» {\n\treturn refco.Go(func(ʏ *refco.Y[int]) {\n",
		"func drainPtr(p *«Iter[int]», k int) «Iter[int]» {\n", "func drainPtr(p *«Iter[int]», k int) «Iter[int]» {\n\treturn refco.Go(func(ʏ *refco.Y[int]) {\n",
		"func fwdNums(f *feed, n int) (_ «Iter[int]») {\n", "func fwdNums(f *feed, n int) «Iter[int]» {\n\treturn refco.Go(func(ʏ *refco.Y[int]) {\n",
		"\treturn nil\n}\n", "\treturn\n\t})\n}\n",
		"\treturn\n}\n", "\treturn\n\t})\n}\n",
	).Replace(genSrc)
	users := fmt.Sprintf(`func mkFeed(base int) *feed {
	return &feed{
		cur: dnums(base, 3),
		all: []«Iter[int]»{dnums(base+10, 2), dnums(base+20, 2)},
		byk: map[int]«Iter[int]»{0: dnums(base+30, 2), 1: dnums(base+40, 1)},
		nxt: &feed{cur: dnums(base+50, 2), all: []«Iter[int]»{dnums(base+60, 1), dnums(base+70, 2)}},
	}
}

// the consumer replaces every source after the (b+1)th element
func UseFeed(a, b int) int {
	f := mkFeed(10)
	it := f.drain(a)
	s, step := 0, 0
	for it.MoveNext() {
		s = s*3 + it.Current()
		step++
		if step == b+1 {
			g := mkFeed(500)
			f.cur, f.all[0], f.all[1], f.nxt = g.cur, g.all[0], g.all[1], g.nxt
			f.byk[0], f.byk[1] = g.byk[0], g.byk[1]
			vrt.E(%[1]d, step)
		}
	}
	return vrt.V(%[2]d, s)
}

func UseFeedByValue(a, b int) int {
	f := mkFeed(20)
	it := f.drainByValue(a)
	s, step := 0, 0
	for v := range «RANGE(it)» {
		s = s*3 + v
		step++
		if step == b {
			f.cur = dnums(700, 2)       // the generator holds a copy of *f taken at the call
			f.nxt.all = []«Iter[int]»{dnums(800, 1), dnums(900, 1)} // read when the delegation is reached
			vrt.E(%[3]d, step)
		}
	}
	for v := range «RANGE(f.cur)» {
		s = s*3 + v
	}
	return vrt.V(%[4]d, s)
}
`, tag(), tag(), tag(), tag())
	users += fmt.Sprintf(`
func UseFwd(a, b int) int {
	f := &feed{base: a}
	it := fwdNums(f, 3)
	f.base = b * 10 // before the first advance
	s := 0
	for v := range «RANGE(it)» {
		s = s*3 + v
	}
	cur := dnums(a, 3)
	dp := drainPtr(&cur, -7)
	if dp.MoveNext() {
		s = s*3 + dp.Current()
	}
	cur = dnums(b+40, 2) // re-pointed mid-delegation: the running delegation does not notice
	for dp.MoveNext() {
		s = s*3 + dp.Current()
	}
	var nf *feed
	never := fwdNums(nf, 1) // never advanced: nothing of its body runs, not even the nil dereference
	_ = never
	return vrt.V(%d, s)
}
`, tag())
	src = []string{common, genSrc, users}
	ref = []string{common, genRef, users}
	small := []int{-1, 0, 1, 2, 3, 5, 8}
	funcs = []*Func{
		{Name: "UseFeed", Params: []string{"a", "b"}, Args: [][]int{small, small}, Feat: []string{"yieldfrom_operand_field_index_mapelem_deref_reinstalled_by_consumer_mid_delegation"}},
		{Name: "UseFwd", Params: []string{"a", "b"}, Args: [][]int{small, small}, Feat: []string{"forwarding_generator_operands_read_at_first_advance_not_at_call"}},
		{Name: "UseFeedByValue", Params: []string{"a", "b"}, Args: [][]int{small, small}, Feat: []string{"yieldfrom_operand_through_value_receiver_copy_and_shared_pointer"}},
	}
	return
}

// nestedTemplates (C14, C03): one generator hands out a sub-iterator per loop iteration (a
// generator literal that captures that iteration's variables and reads them lazily); the
// consumer first collects them - or advances the outer generator in between - and then
// consumes them in a drawn interleaving. Each sub-iterator must produce what it produces
// when consumed alone (the reference runs the same consumer on coroutines).
func nestedTemplates(r *prng.R, tag func() int) (src, ref []string, funcs []*Func) {
	common := `// (declared in THIS rewritten file, called through a forwarding literal of another one)
func millisOf(d time.Duration) int64 { return int64(d / time.Millisecond) }

type SubIt = «Iter[int]»

type subBox struct {
	it «Iter[int]»
	id int
}
`
	lit := func(body string) string { // a generator literal, invoked on the spot
		return "func() «Iter[int]» {\n" + body + "\t\t\treturn nil\n\t\t}()"
	}
	genSrc := fmt.Sprintf(`func subsRange2(xs []int) «Iter[SubIt]» {
	for k, v := range xs {
		«Yield»(`+lit("\t\t\t«Yield»(k)\n\t\t\t«Yield»(v)\n\t\t\tvrt.E(%[1]d, k, v)\n\t\t\t«Yield»(k*10 + v)\n")+`)
	}
	return nil
}

// the element type is WRITTEN as the iterator type (not through the alias)
func subsDirect(n int) «Iter[«Iter[int]»]» {
	for i := 0; i < n; i++ {
		k := i * 3
		«Yield»(func() «Iter[int]» {
			«Yield»(k)
			k++
			«Yield»(k)
			return nil
		}())
	}
	return nil
}

// a generator LITERAL held by a package-level variable, instantiated several times
var pkgLit = func(k int) «Iter[int]» {
	step := 0
	for i := 0; i < 3; i++ {
		step += k
		«Yield»(k*100 + step)
	}
	return nil
}

func subsRange1(xs []int) «Iter[SubIt]» {
	for _, v := range xs {
		«Yield»(`+lit("\t\t\t«Yield»(v)\n\t\t\tv += 100\n\t\t\t«Yield»(v)\n\t\t\tv += 100\n\t\t\t«Yield»(v)\n")+`)
		v = -v // after the hand-out: the literal of THIS iteration sees it
	}
	return nil
}

func subsInt(n int) «Iter[SubIt]» {
	for i := range n {
		«Yield»(`+lit("\t\t\tfor j := 0; j <= i; j++ {\n\t\t\t\t«Yield»(i*10 + j)\n\t\t\t}\n")+`)
	}
	return nil
}

func subsString(s string) «Iter[SubIt]» {
	for i, c := range s {
		«Yield»(`+lit("\t\t\t«Yield»(i)\n\t\t\t«Yield»(int(c))\n")+`)
	}
	return nil
}

func subsBodyVar(n int) «Iter[subBox]» {
	total := 0
	i := 0
	for i < n {
		x := i * i
		total += x
		«Yield»(subBox{id: i, it: `+lit("\t\t\t«Yield»(x)\n\t\t\tx++\n\t\t\ttotal++\n\t\t\tvrt.E(%[2]d, x, total)\n\t\t\t«Yield»(x + total)\n")+`})
		x += 1000
		i++
	}
	return nil
}
`, tag(), tag())
	genRef := strings.NewReplacer(
		"func subsRange2(xs []int) «Iter[SubIt]» {\n", "func subsRange2(xs []int) «Iter[SubIt]» {\n\treturn refco.Go(func(ʏ *refco.Y[SubIt]) {\n",
		"func subsDirect(n int) «Iter[«Iter[int]»]» {\n", "func subsDirect(n int) «Iter[«Iter[int]»]» {\n\treturn refco.Go(func(ʏ *refco.Y[«Iter[int]»]) {\n",
		"var pkgLit = func(k int) «Iter[int]» {\n", "var pkgLit = func(k int) «Iter[int]» {\n\treturn refco.Go(func(ʏ *refco.Y[int]) {\n",
		"func subsRange1(xs []int) «Iter[SubIt]» {\n", "func subsRange1(xs []int) «Iter[SubIt]» {\n\treturn refco.Go(func(ʏ *refco.Y[SubIt]) {\n",
		"func subsInt(n int) «Iter[SubIt]» {\n", "func subsInt(n int) «Iter[SubIt]» {\n\treturn refco.Go(func(ʏ *refco.Y[SubIt]) {\n",
		"func subsString(s string) «Iter[SubIt]» {\n", "func subsString(s string) «Iter[SubIt]» {\n\treturn refco.Go(func(ʏ *refco.Y[SubIt]) {\n",
		"func subsBodyVar(n int) «Iter[subBox]» {\n", "func subsBodyVar(n int) «Iter[subBox]» {\n\treturn refco.Go(func(ʏ *refco.Y[subBox]) {\n",
		"func() «Iter[int]» {\n", "func() «Iter[int]» {\n\t\t\treturn refco.Go(func(ʏ *refco.Y[int]) {\n",
		"\t\t\treturn nil\n\t\t}()", "\t\t\treturn\n\t\t\t})\n\t\t}()",
		"\treturn nil\n}\n", "\treturn\n\t})\n}\n",
	).Replace(genSrc)
	users := fmt.Sprintf(`func collectSubs(which, n int) []«Iter[int]» {
	var its []«Iter[int]»
	xs := []int{n, n + 1, n * 2, 7}
	switch ((which %% 6) + 6) %% 6 {
	case 5:
		for it := range «RANGE(subsDirect(3))» {
			its = append(its, it)
		}
	case 0:
		for it := range «RANGE(subsRange2(xs))» {
			its = append(its, it)
		}
	case 1:
		for it := range «RANGE(subsRange1(xs))» {
			its = append(its, it)
		}
	case 2:
		for it := range «RANGE(subsInt(3))» {
			its = append(its, it)
		}
	case 3:
		for it := range «RANGE(subsString("aé" + string(rune('a'+((n%%5)+5)%%5))))» {
			its = append(its, it)
		}
	default:
		for bx := range «RANGE(subsBodyVar(3))» {
			its = append(its, bx.it)
		}
	}
	return its
}

// every sub-iterator exists before the first one is advanced; then a drawn interleaving
func UseSubsCollected(a, b int) int {
	its := collectSubs(a, b)
	done := make([]bool, len(its))
	left, s := len(its), 0
	for step := 0; left > 0 && step < 200; step++ {
		h := ((b*7 + step*step + a) %% len(its) + len(its)) %% len(its)
		for done[h] {
			h = (h + 1) %% len(its)
		}
		if its[h].MoveNext() {
			vrt.E(%[1]d, h, its[h].Current())
			s = s*3 + its[h].Current()
		} else {
			done[h] = true
			left--
		}
	}
	return vrt.V(%[2]d, s)
}

// the outer generator is advanced between two steps of an earlier sub-iterator
func UseSubsLazy(a, b int) int {
	outer := subsRange2([]int{a, b, a + b})
	var its []«Iter[int]»
	s := 0
	for outer.MoveNext() {
		its = append(its, outer.Current())
		for _, it := range its {
			if it.MoveNext() {
				vrt.E(%[3]d, it.Current())
				s = s*3 + it.Current()
			}
		}
	}
	for _, it := range its {
		for v := range «RANGE(it)» {
			s = s*3 + v
		}
	}
	// two instances of the package-level literal, advanced alternately
	p, q := pkgLit(a), pkgLit(b)
	for i := 0; i < 4; i++ {
		if p.MoveNext() {
			s = s*3 + p.Current()
		}
		if i%%2 == 0 && q.MoveNext() {
			s = s*3 + q.Current()
		}
	}
	for q.MoveNext() {
		s = s*3 + q.Current()
	}
	return vrt.V(%[4]d, s)
}
`, tag(), tag(), tag(), tag())
	src = []string{common, genSrc, users}
	ref = []string{common, genRef, users}
	small := []int{-1, 0, 1, 2, 3, 4, 5}
	funcs = []*Func{
		{Name: "UseSubsCollected", Params: []string{"a", "b"}, Args: [][]int{small, small}, Feat: []string{"sub_iterators_of_one_generator_collected_then_interleaved"}},
		{Name: "UseSubsLazy", Params: []string{"a", "b"}, Args: [][]int{small, small}, Feat: []string{"outer_generator_advanced_between_steps_of_its_sub_iterators"}},
	}
	return
}

// optTemplates: declarations aimed at the optimiser's side conditions (C07) and at file-wide
// passes over bystander code (C13): closures of the eta-reducible shape whose callee is a
// reassigned function variable, a method value on a reassigned receiver, a builtin, a
// conversion, a generic instantiation, a package-level function; a loop condition that is
// a call of a reassigned function variable; imports used only by generator code, only by
// bystanders, blank, renamed and dot imports. All functions are registry entries.
func optTemplates(r *prng.R, tag func() int) (imports, src, ref []string, funcs []*Func, plain []string) {
	k1, k2, k3 := r.Range(1, 4), r.Range(5, 9), r.Range(0, 3)
	imports = []string{`"strconv"`, `mb "math/bits"`, `_ "unicode/utf8"`, `. "sort"`, `"time"`}
	common := fmt.Sprintf(`type cell struct{ n int }

type frame struct {
	n int
	a [2]int
}

type tagMap map[int]string

func (c *cell) Get() int { return c.n }

func (c cell) Val() int { return c.n * 2 }

func pk1() int { return %[1]d }

func pk2() int { return %[2]d }

func idT[T any](x T) T { return x }

var pkf = pk1

const pconst = %[3]d

var pvar = pk2() + pconst

var pinit int

func init() { pinit = pvar * 2 }

// bystanders: ordinary code co-located with generators
func ByFuncVar(a, b int) int {
	f := pk1
	g := func() int { return f() } // callee is a variable that is reassigned below
	if a > 1 {
		f = pk2
	}
	h := func() int { return pkf() }
	if b > 1 {
		pkf = pk2
	}
	res := g()*100 + h()
	pkf = pk1
	return vrt.V(%[4]d, res)
}

func ByMethodValue(a, b int) int {
	s := &cell{a}
	h := func() int { return s.Get() } // receiver reassigned after the closure is created
	if b > 0 {
		s = &cell{b * 10}
	}
	var t *cell
	lazy := func() int { return t.Get() } // nil receiver now, set before the call
	t = &cell{7}
	c := cell{a}
	cv := func() int { return c.Val() } // value receiver: copied at call time, not at creation
	c.n = b
	return vrt.V(%[5]d, h()*1000+lazy()*100+cv())
}

func twoCells(n int) (*cell, bool) { return &cell{n}, true }

func ByRedeclare(a, b int) int {
	p := &cell{a}
	h := func() int { return p.Get() } // p is rebound below by a redeclaring ':='
	p, ok := twoCells(b * 10)
	_ = ok
	q := &cell{a + 1}
	g := func() int { return q.Get() }
	if b > 1 {
		q, ok = twoCells(b) // plain tuple assignment
	}
	return vrt.V(%[7]d, h()*100+g())
}

func ByLoopShared(a, b int) int {
	var fs []func() int
	var p *cell
	for i := 0; i < 3; i++ {
		p = &cell{a + i} // the write sits textually BEFORE the literal but runs again after it was created
		fs = append(fs, func() int { return p.Get() })
	}
	sum := 0
	for _, f := range fs {
		sum = sum*10 + f()
	}
	var r *cell
	set := func(n int) { r = &cell{n} }
	get := func() int { return r.Get() }
	set(b)
	first := get
	set(b + 5)
	return vrt.V(%[8]d, sum*100+first())
}

func ByOuterWrite(a, b int) int {
	p := &cell{a}
	mk := func() func() int {
		return func() int { return p.Get() } // the literal stands in an inner function ...
	}
	g := mk()
	p = &cell{b * 10} // ... the receiver is rebound in the outer one
	q := &cell{a + 2}
	var h func() int
	func() {
		h = func() int { return q.Get() }
	}()
	func() {
		q = &cell{b + 3} // rebound in a sibling closure
	}()
	return vrt.V(%[9]d, g()*100+h())
}

// the consumer writes to what it was given and keeps it
func UseRows(a, b int) int {
	sum := 0
	var kept [][]int
	for row := range «RANGE(optRows(3))» {
		sum = sum*10 + row[0]
		row[0] += a + 1
		kept = append(kept, row)
	}
	for m := range «RANGE(optMaps(2))» {
		sum = sum*10 + m[1]
		m[1] += b + 1
	}
	for _, row := range kept {
		sum += row[0]
	}
	return vrt.V(%[10]d, sum)
}

func ByBuiltins(a, b int) int {
	l := func(s string) int { return len(s) }
	cv := func(x int) int64 { return int64(x) }
	id := func(x int) int { return idT[int](x) }
	pk := func() int { return pk1() }
	ap := func(xs []int, x int) []int { return append(xs, x) }
	xs := ap(nil, a)
	return vrt.V(%[6]d, l("abc")+int(cv(a))+id(b)+pk()+len(xs)+pinit+mb.OnesCount(uint(a+8)))
}

// a bystander that uses the API's and the runtime's NAMES for its own fields, methods and
// local variables
type ownNames struct {
	Iter  int
	Yield func(int) int
}

func (o ownNames) Current() int { return o.Iter * 2 }

func (o ownNames) MoveNext() bool { return o.Iter > 0 }

func ByOwnNames(a, b int) int {
	seq := ownNames{Iter: a, Yield: func(x int) int { return x + b }}
	sum := seq.Yield(seq.Iter)
	if seq.MoveNext() {
		sum += seq.Current()
	}
	const doc = "co.Iter[int] and Yield(1) in a string stay what they are"
	return vrt.V(%[16]d, sum+len(doc))
}

// "time" is mentioned in this file ONLY by the signature of a forwarding literal; its callee
// lives in another rewritten file of the package
func ByImportInSignature(a, b int) int {
	ms := func(d time.Duration) int64 { return millisOf(d) }
	return vrt.V(%[15]d, int(ms(1500000000))+a-b)
}

// no effect points inside (the function is atomic for the thread scheduler): it owns the
// package-level state while it runs
func UsePkgLevel(a, b int) int {
	setLevel(a)
	g, h, k := genLevels(3), genLevelFirst(), genLevelAfter(b > 0)
	setLevel(a + 7) // between the creation of the iterators and their first advance
	sum := 0
	if h.MoveNext() {
		sum = h.Current()
	}
	for k.MoveNext() {
		sum = sum*10 + k.Current()
		setLevel(a + 9)
	}
	for g.MoveNext() {
		sum = sum*10 + g.Current()
		setLevel(g.Current() + b + 1)
	}
	setLevel(0)
	setLevel2(b)
	g2 := genLevels2(3)
	setLevel2(b + 5)
	for g2.MoveNext() {
		sum = sum*10 + g2.Current()
		setLevel2(g2.Current() + a + 1)
	}
	setLevel2(0)
	// the table is re-written while an iterator is suspended inside its loop over it
	setTable(0, 4)
	setTable(1, 5)
	setTable(2, 6)
	tb := genTable(a)
	if tb.MoveNext() {
		sum = sum*10 + tb.Current()
	}
	setTable(1, 50)
	setTable(2, 60+b)
	for tb.MoveNext() {
		sum = sum*10 + tb.Current()
	}
	setTable(1, 5)
	setTable(2, 6)
	return vrt.V(%[14]d, sum)
}

func sumOf(xs []int) int {
	s := 0
	for _, x := range xs {
		s += x
	}
	return s
}

func countOf(xs ...any) int { return len(xs) }

func totalOf(xs ...int) int { return sumOf(xs) + 1 }

// forwarding literals that differ from their callee only in how a variadic parameter is
// declared or passed on; the dynamic type of a literal is observed through 'any'
func ByVariadic(a, b int) int {
	fns := map[string]any{
		"sum": func(xs ...int) int { return sumOf(xs) },
		"tot": func(xs []int) int { return totalOf(xs...) },
		"fwd": func(xs ...int) int { return totalOf(xs...) },
	}
	cnt := func(xs ...any) int { return countOf(xs) } // xs is ONE argument of countOf
	tot := func(...int) int { return totalOf() }      // unnamed parameter: nothing is forwarded
	kinds := 0
	for _, k := range []string{"sum", "tot", "fwd"} {
		switch f := fns[k].(type) {
		case func(...int) int:
			kinds = kinds*10 + 1 + f(a, b)%%3
		case func([]int) int:
			kinds = kinds*10 + 5 + f([]int{a, b})%%3
		}
	}
	return vrt.V(%[11]d, kinds*1000+cnt(1, 2, 3)*100+tot(a, b, 3))
}

func ByGenericCallee(a, b int) int {
	f := func(x int) int { return idT(x) } // type argument inferred from the call
	g := func(x int) int { return idT[int](x) }
	return vrt.V(%[12]d, f(a)*10+g(b))
}

func dblWide(c wide) wide { return c * 2 }

func anyWide(c wide) any { return c + 1 }

// 'wide' is declared in a plain sibling file: the optimise stage, which reloads the
// rewritten files only, cannot resolve it
func ByPartialPkg(a, b int) int {
	var conv any = func(c wide) any { return dblWide(c) } // NOT a func(wide) wide
	same := func(c wide) any { return anyWide(c) }
	r := 0
	switch f := conv.(type) {
	case func(wide) any:
		r = 1
	case func(wide) wide:
		r = 2 + int(f(wide(a)))
	}
	return vrt.V(%[13]d, r*100+int(same(wide(b)).(wide)))
}
`, k1, k2, k3, tag(), tag(), tag(), tag(), tag(), tag(), tag(), tag(), tag(), tag(), tag(), tag(), tag())
	genSrc := fmt.Sprintf(`func optRows(n int) «Iter[[]int]» {
	for i := 0; i < n; i++ {
		«Yield»([]int{0, 0}) // an all-literal slice: a fresh one per iteration
	}
	return nil
}

func optMaps(n int) «Iter[map[int]int]» {
	for i := 0; i < n; i++ {
		«Yield»(map[int]int{1: 0})
	}
	return nil
}

func OptLoopCond(a, b int) «Iter[int]» {
	n := 0
	p := func() bool { return n < a }
	for p() { // the condition is a call of a variable reassigned in the body
		vrt.E(%[1]d, n)
		«Yield»(100 + n)
		n++
		if n == b {
			p = func() bool { return false }
		}
	}
	«Yield»(n)
	return nil
}

func OptEtaInGen(a, b int) «Iter[int]» {
	f := pk1
	g := func() int { return f() }
	«Yield»(g())
	if a > 0 {
		f = pk2
	}
	«Yield»(vrt.V(%[2]d, g()))
	s := &cell{a}
	h := func() int { return s.Get() }
	s = &cell{b}
	«Yield»(h())
	l := func(s string) int { return len(s) }
	«Yield»(l(strconv.Itoa(a * 1000)))
	«Yield»(SearchInts([]int{1, 3, 5}, b))
	x := a
	for i := 0; i < 2; i++ {
		«Yield»(x)
		x += b
	}
	return nil
}

type page struct {
	items []int
	next  *page
	pos   int
}

func (p *page) more() bool { return p.pos < len(p.items) }

func (p *page) take() int { p.pos++; return p.items[p.pos-1] }

func mkPages(a, b int) *page {
	p3 := &page{items: []int{a + 5, b + 6}}
	p2 := &page{items: []int{b + 3}, next: p3}
	if b > 2 {
		p2.items = nil
	}
	return &page{items: []int{a + 1, a + 2}, next: p2}
}

// reader embeds a POINTER: the promoted method value r.more would read r.page when it is
// created, the call r.more() reads it when it is made
type reader struct{ *page }

func (r *reader) turn() bool {
	if r.page.next == nil {
		return false
	}
	r.page = r.page.next
	return true
}

func OptPromotedPtr(a, b int) «Iter[int]» {
	r := &reader{mkPages(a, b)}
	for {
		for r.more() {
			vrt.E(%[4]d, r.pos)
			«Yield»(r.take())
		}
		if !r.turn() {
			break
		}
	}
	return nil
}

type counter struct{ n int }

func (c *counter) Advance() bool { c.n--; return c.n >= 0 }

// holder embeds a VALUE: x.Advance is (&x.counter).Advance, which dereferences x when
// the method value is created
type holder struct{ counter }

func mkHolder(n, min int) (h *holder) {
	if n > min {
		h = &holder{counter{n}}
	}
	return h
}

func OptPromotedNil(a, b int) «Iter[int]» {
	x := mkHolder(a, 1) // assigned exactly once
	if b > 0 {
		vrt.E(%[5]d)
		«Yield»(-1)
	}
	for x.Advance() { // x == nil: the panic belongs to the step that evaluates the condition
		«Yield»(x.n)
	}
	return nil
}

func OptPromotedNilClosure(a, b int) «Iter[int]» {
	x := mkHolder(a, 2)
	adv := func() bool { return x.Advance() } // created before the yield, called after it
	«Yield»(b)
	vrt.E(%[6]d)
	if adv() {
		«Yield»(x.n)
	}
	return nil
}

// pkgLevel is declared in a plain sibling file and only written there (setLevel): a yield of
// it reads it when the yield is reached, every time
func genLevels(n int) «Iter[int]» {
	for i := 0; i < n; i++ {
		«Yield»(pkgLevel)
	}
	return nil
}

func genLevelFirst() «Iter[int]» {
	«Yield»(pkgLevel)
	return nil
}

// pkgTable: an unexported package-level ARRAY declared here and written only from a plain
// file; a range with a value variable iterates over a copy taken when the loop starts
var pkgTable = [3]int{4, 5, 6}

func genTable(k int) «Iter[int]» {
	for i, v := range pkgTable {
		«Yield»(v*10 + i + k)
	}
	return nil
}

// pkgLevel2 is declared HERE, in a rewritten file, but written only from a plain file
var pkgLevel2 int

func genLevels2(n int) «Iter[int]» {
	for i := 0; i < n; i++ {
		«Yield»(pkgLevel2)
	}
	return nil
}

func genLevelAfter(first bool) «Iter[int]» {
	if first {
		«Yield»(-1)
	}
	«Yield»(pkgLevel)
	return nil
}

// by-value struct / array PARAMETERS written through fields and elements only (never
// assigned as a whole) and yielded as bare identifiers right after yielding statements: the
// value is read when the yield is reached
func optFrames(f frame, n int) «Iter[frame]» {
	for i := 0; i < n; i++ {
		f.n++
		f.a[i%%2] += i + 1
		«Yield»(f)
	}
	«Yield»(f)
	if n > 1 {
		f.n *= 2
		«Yield»(f)
	}
	«Yield»(f)
	f.a[1]++
	switch {
	case n > 0:
		f.a[0] = -n
		«Yield»(f)
	}
	«Yield»(f)
	return nil
}

// composite literals of NAMED map / slice / struct types whose keys and elements read a
// variable that changes between the yields; each yield stands alone in its thunk
func optTags(n int) «Iter[tagMap]» {
	cnt := 0
	bump := func() { cnt += 2 }
	for i := 0; i < n; i++ {
		«Yield»(tagMap{i: "x"})
		bump()
	}
	«Yield»(tagMap{cnt: "c"})
	if n > 1 {
		bump()
		«Yield»(tagMap{-1: "y"})
	}
	«Yield»(tagMap{cnt + 100: "d"})
	return nil
}

// two range statements that start on ONE source line (not gofmt'ed): their iterator
// temporaries are declared in the same block
func OptOneLine(a, b int) «Iter[int]» {
	x := 0
	for _, v := range []int{a, 1} { x += v }; for _, v := range []int{b, 2} { x += v * 3 }
	«Yield»(x)
	for i := range 2 { «Yield»(i) }; for i := range 2 { «Yield»(i + 10) }
	return nil
}

func optArrs(p [2]int, n int) «Iter[[2]int]» {
	if n > 0 {
		p[0] = n
		«Yield»(p)
	}
	«Yield»(p)
	for p[1] < n {
		p[1] += 2
		«Yield»(p)
	}
	«Yield»(p)
	return nil
}

func UseFrames(a, b int) int {
	s := 0
	for f := range «RANGE(optFrames(frame{n: a}, b%%4))» {
		s = s*3 + f.n + f.a[0]*5 + f.a[1]*7
	}
	for p := range «RANGE(optArrs([2]int{a, 0}, b))» {
		s = s*3 + p[0] + p[1]*11
	}
	for m := range «RANGE(optTags(((b%%4)+4)%%4))» {
		for k, v := range m {
			s = s*3 + k + len(v)
		}
	}
	return vrt.V(%[7]d, s)
}

// an ordinary closure of a generator body that leaves / continues a NATIVE range loop; its
// result type is an interface, so a jump turned into 'return <anything>' would still build
func OptLookup(a, b int) «Iter[int]» {
	table := []int{3, 0, a, 5, b}
	lookup := func(key int) any {
		var found any
		for i, e := range table {
			if e == 0 {
				continue
			}
			if e == key {
				found = i
				break
			}
		}
		return found
	}
	for _, k := range []int{a, b, 5, 9} {
		if f, ok := lookup(k).(int); ok {
			«Yield»(f)
		} else {
			«Yield»(-1)
		}
	}
	return nil
}

func OptDelay(a, b int) (_ «Iter[int]») {
	x := a
	if b > 0 {
		x++
		«Yield»(x)
	}
	{
		«Yield»(%[3]d)
		x *= 2
	}
	switch x {
	case 2:
		«Yield»(7)
	default:
		for x < 6 {
			x += 2
			«Yield»(x)
		}
	}
	// a bare break / continue directly behind a yielding statement of a loop body
	for x < 40 {
		x += 3
		for j := 0; j < 2; j++ {
			«Yield»(x + j)
		}
		break
	}
	for i := 0; i < 3; i++ {
		switch {
		case i == b:
			«Yield»(-i)
		}
		continue
	}
	for i := 0; i < 3; i++ {
		if i != a {
			«Yield»(i * 7)
		}
		break
	}
	return
}
`, tag(), tag(), k2, tag(), tag(), tag(), tag())
	genRef := strings.NewReplacer(
		"func OptLookup(a, b int) «Iter[int]» {\n", "func OptLookup(a, b int) «Iter[int]» {\n\treturn refco.Go(func(ʏ *refco.Y[int]) {\n",
		"func optTags(n int) «Iter[tagMap]» {\n", "func optTags(n int) «Iter[tagMap]» {\n\treturn refco.Go(func(ʏ *refco.Y[tagMap]) {\n",
		"func OptOneLine(a, b int) «Iter[int]» {\n", "func OptOneLine(a, b int) «Iter[int]» {\n\treturn refco.Go(func(ʏ *refco.Y[int]) {\n",
		"func optFrames(f frame, n int) «Iter[frame]» {\n", "func optFrames(f frame, n int) «Iter[frame]» {\n\treturn refco.Go(func(ʏ *refco.Y[frame]) {\n",
		"func optArrs(p [2]int, n int) «Iter[[2]int]» {\n", "func optArrs(p [2]int, n int) «Iter[[2]int]» {\n\treturn refco.Go(func(ʏ *refco.Y[[2]int]) {\n",
		"func genLevels(n int) «Iter[int]» {\n", "func genLevels(n int) «Iter[int]» {\n\treturn refco.Go(func(ʏ *refco.Y[int]) {\n",
		"func genTable(k int) «Iter[int]» {\n", "func genTable(k int) «Iter[int]» {\n\treturn refco.Go(func(ʏ *refco.Y[int]) {\n",
		"func genLevels2(n int) «Iter[int]» {\n", "func genLevels2(n int) «Iter[int]» {\n\treturn refco.Go(func(ʏ *refco.Y[int]) {\n",
		"func genLevelFirst() «Iter[int]» {\n", "func genLevelFirst() «Iter[int]» {\n\treturn refco.Go(func(ʏ *refco.Y[int]) {\n",
		"func genLevelAfter(first bool) «Iter[int]» {\n", "func genLevelAfter(first bool) «Iter[int]» {\n\treturn refco.Go(func(ʏ *refco.Y[int]) {\n",
		"func OptPromotedPtr(a, b int) «Iter[int]» {\n", "func OptPromotedPtr(a, b int) «Iter[int]» {\n\treturn refco.Go(func(ʏ *refco.Y[int]) {\n",
		"func OptPromotedNil(a, b int) «Iter[int]» {\n", "func OptPromotedNil(a, b int) «Iter[int]» {\n\treturn refco.Go(func(ʏ *refco.Y[int]) {\n",
		"func OptPromotedNilClosure(a, b int) «Iter[int]» {\n", "func OptPromotedNilClosure(a, b int) «Iter[int]» {\n\treturn refco.Go(func(ʏ *refco.Y[int]) {\n",
		"func optRows(n int) «Iter[[]int]» {\n", "func optRows(n int) «Iter[[]int]» {\n\treturn refco.Go(func(ʏ *refco.Y[[]int]) {\n",
		"func optMaps(n int) «Iter[map[int]int]» {\n", "func optMaps(n int) «Iter[map[int]int]» {\n\treturn refco.Go(func(ʏ *refco.Y[map[int]int]) {\n",
		"func OptLoopCond(a, b int) «Iter[int]» {\n", "func OptLoopCond(a, b int) «Iter[int]» {\n\treturn refco.Go(func(ʏ *refco.Y[int]) {\n",
		"func OptEtaInGen(a, b int) «Iter[int]» {\n", "func OptEtaInGen(a, b int) «Iter[int]» {\n\treturn refco.Go(func(ʏ *refco.Y[int]) {\n",
		"func OptDelay(a, b int) (_ «Iter[int]») {\n", "func OptDelay(a, b int) «Iter[int]» {\n\treturn refco.Go(func(ʏ *refco.Y[int]) {\n",
		"\treturn nil\n}\n", "\treturn\n\t})\n}\n",
		"\treturn\n}\n", "\treturn\n\t})\n}\n",
	).Replace(genSrc)
	src = []string{common, genSrc}
	ref = []string{common, genRef}
	small := []int{-1, 0, 1, 2, 3, 5}
	mk := func(name string, gen bool, feat ...string) *Func {
		return &Func{Name: name, Gen: gen, Elem: "int", Params: []string{"a", "b"}, Args: [][]int{small, small}, Feat: feat}
	}
	funcs = []*Func{
		mk("ByFuncVar", false, "eta_shape_callee_function_variable"),
		mk("ByMethodValue", false, "eta_shape_callee_method_value"),
		mk("ByRedeclare", false, "eta_shape_receiver_rebound_by_redeclaring_define"),
		mk("ByLoopShared", false, "eta_shape_in_loop_sharing_a_variable_written_before_the_literal"),
		mk("ByOuterWrite", false, "eta_shape_receiver_rebound_in_another_function"),
		mk("UseRows", false, "yield_of_all_literal_slice_and_map_consumer_mutates"),
		mk("ByBuiltins", false, "eta_shape_callee_builtin_conversion_generic", "import_used_only_by_bystander", "import_blank", "import_renamed"),
		mk("OptLoopCond", true, "loop_condition_calls_reassigned_variable"),
		mk("OptEtaInGen", true, "eta_shape_inside_generator", "import_used_only_by_generator_code", "import_dot"),
		mk("OptDelay", true, "delay_elision_shapes"),
		mk("UsePkgLevel", false, "yield_of_package_level_variable_declared_and_written_in_a_plain_file"),
		mk("ByVariadic", false, "eta_shape_variadic_forwarding_and_unnamed_parameters"),
		mk("ByGenericCallee", false, "eta_shape_generic_callee_inferred_type_argument"),
		mk("ByPartialPkg", false, "eta_shape_types_from_a_plain_sibling_file"),
		mk("OptPromotedPtr", true, "loop_condition_promoted_method_through_embedded_pointer"),
		mk("OptPromotedNil", true, "loop_condition_promoted_method_nil_receiver"),
		mk("OptPromotedNilClosure", true, "eta_shape_promoted_method_nil_receiver"),
		mk("OptLookup", true, "plain_closure_in_generator_leaves_native_range_with_break_and_continue_result_type_any"),
		mk("ByOwnNames", false, "bystander_using_api_and_runtime_names_for_its_own_fields_methods_and_locals"),
		mk("ByImportInSignature", false, "import_mentioned_only_by_the_signature_of_a_reducible_literal"),
		mk("OptOneLine", true, "two_range_statements_starting_on_one_source_line"),
		mk("UseFrames", false, "yield_of_by_value_struct_and_array_parameters_written_through_fields", "yield_of_named_map_literal_with_variable_key"),
	}
	plain = []string{"// the only writers of pkgLevel2 and pkgTable (declared in a rewritten file) live in this plain file\nfunc setLevel2(n int) { pkgLevel2 = n }\n\nfunc setTable(i, v int) { pkgTable[i] = v }\n"}
	return
}

// DepthProg is the C17 workload at compiled-program level: every loop form with long
// non-yielding stretches (first parameter = trip count), and delegation chains (first
// parameter = delegation depth, entries named R*: linear growth allowed).
func DepthProg(r *prng.R, thorough bool) *Prog {
	tag := 0
	nt := func() int { tag++; return tag }
	sizes := []int{1000, 10000, 100000}
	if thorough {
		sizes = append(sizes, 1000000)
	}
	jit := r.Intn(50)
	for i := range sizes {
		sizes[i] += jit
	}
	ks := []int{3 + r.Intn(5), 997, -1} // -1: the driver passes the trip count itself (one quiet stretch as long as the loop)
	type tpl struct{ name, body string }
	tpls := []tpl{
		{"D1", fmt.Sprintf("for i := 0; i < n; i++ {\n\tvrt.E(%d)\n\tif i%%k != k-1 {\n\t\tcontinue\n\t}\n\t«Yield»(i)\n}", nt())},
		{"D2", fmt.Sprintf("i := 0\nfor i < n {\n\ti++\n\tvrt.E(%d)\n\tif i%%k != 0 {\n\t\tcontinue\n\t}\n\t«Yield»(i)\n}", nt())},
		{"D3", fmt.Sprintf("i := 0\nfor {\n\ti++\n\tif i > n {\n\t\tbreak\n\t}\n\tvrt.E(%d)\n\tif i%%k != 0 {\n\t\tcontinue\n\t}\n\t«Yield»(i)\n}", nt())},
		{"D4", fmt.Sprintf("for i := range n {\n\tvrt.E(%d)\n\tif i%%k != k-1 {\n\t\tcontinue\n\t}\n\t«Yield»(i)\n}", nt())},
		{"D5", fmt.Sprintf("for i, v := range make([]int, n) {\n\tvrt.E(%d)\n\tif (i+v)%%k != k-1 {\n\t\tcontinue\n\t}\n\t«Yield»(i)\n}", nt())},
		{"D6", fmt.Sprintf("for i := 0; i < 3; i++ {\n\tfor j := 0; j < n; j++ {\n\t\tif j < 0 {\n\t\t\t«Yield»(j)\n\t\t}\n\t\tvrt.E(%d)\n\t}\n\t«Yield»(i * k)\n}", nt())},
		{"D7", fmt.Sprintf("for i := 0; i < n; i++ {\n\tvrt.E(%d)\n\tif i%%k == k-1 {\n\t\t«Yield»(i)\n\t}\n}", nt())},
		{"D8", fmt.Sprintf("for v := range «RANGE(D7(n, 1))» {\n\tvrt.E(%d)\n\tif v%%k != 0 {\n\t\tcontinue\n\t}\n\t«Yield»(v)\n}", nt())},
		{"D10", fmt.Sprintf("for i := 0; i < n; i++ {\n\tfor j := 0; j < 2; j++ {\n\t\tif j > 5 {\n\t\t\t«Yield»(j)\n\t\t}\n\t}\n\tvrt.E(%d)\n\tif i%%k != k-1 {\n\t\tcontinue\n\t}\n\t«Yield»(i)\n}", nt())},
		{"D11", fmt.Sprintf("i := 0\nfor i < n {\n\ti++\n\tfor _, v := range []int{1, 2} {\n\t\tfor w := range v {\n\t\t\tif w > 5 {\n\t\t\t\t«Yield»(w)\n\t\t\t}\n\t\t}\n\t}\n\tvrt.E(%d)\n\tif i%%k == 0 {\n\t\t«Yield»(i)\n\t}\n}", nt())},
		// an init-less inner loop that yields (so it is a loop of the runtime), first in the outer
		// body: one loop VALUE run once per outer iteration; the depth is sampled INSIDE its
		// condition / post statement
		{"D12", fmt.Sprintf("j := 0\nfor i := 0; i < n; i++ {\n\tfor vrt.B(%d, j < 0) {\n\t\t«Yield»(j)\n\t}\n\tif i%%k != k-1 {\n\t\tcontinue\n\t}\n\t«Yield»(i)\n}", nt())},
		{"D13", fmt.Sprintf("j := 0\nfor i := 0; i < n; i++ {\n\tfor ; j < i%%2; j += vrt.V(%d, 1) {\n\t\tif j < 0 {\n\t\t\t«Yield»(j)\n\t\t}\n\t}\n\tj = 0\n\tif i%%k != k-1 {\n\t\tcontinue\n\t}\n\t«Yield»(i)\n}", nt())},
		// the loop body is exactly ONE switch (no statement in front of it, no init) with a
		// yielding case that is left by break: the runtime's Breakable wrapper is the whole body
		{"D14", fmt.Sprintf("for i := 0; i < n; i++ {\n\tswitch {\n\tcase i%%k == k-1:\n\t\t«Yield»(i)\n\t\tif i%%2 == 0 {\n\t\t\tbreak\n\t\t}\n\t\tvrt.E(%d)\n\tdefault:\n\t\tvrt.E(%d)\n\t}\n}", nt(), nt())},
		{"D15", fmt.Sprintf("i := 0\nfor ; i < n; i++ {\n\tswitch {\n\tcase i%%k != k-1:\n\t\tvrt.E(%d)\n\t\tbreak\n\tdefault:\n\t\t«Yield»(i)\n\t\tif i > 3 {\n\t\t\tbreak\n\t\t}\n\t\t«Yield»(-i)\n\t}\n}", nt())},
		// the loop HAS yielded (and been resumed) before its long quiet stretch starts
		{"D16", fmt.Sprintf("for i := 0; i < n; i++ {\n\tvrt.E(%d)\n\tif i != 0 && i != n-1 && k != 0 {\n\t\tcontinue\n\t}\n\t«Yield»(i)\n}", nt())},
		{"D17", fmt.Sprintf("i := -1\nfor i < n-1 {\n\ti++\n\tvrt.E(%d)\n\tif i == 0 || i == n-1 || k == 0 {\n\t\t«Yield»(i)\n\t}\n}", nt())},
		{"D9", fmt.Sprintf("i := 0\nfor i < n {\n\ti++\n\tswitch {\n\tcase i%%k == 0:\n\t\t«Yield»(i)\n\tdefault:\n\t\tvrt.E(%d)\n\t}\n}", nt())},
	}
	var src, ref []string
	var funcs []*Func
	for _, t := range tpls {
		ind := func(s, pre string) string { return pre + strings.ReplaceAll(s, "\n", "\n"+pre) }
		src = append(src, fmt.Sprintf("func %s(n, k int) «Iter[int]» {\n%s\n\treturn nil\n}", t.name, ind(t.body, "\t")))
		ref = append(ref, fmt.Sprintf("func %s(n, k int) «Iter[int]» {\n\treturn refco.Go(func(ʏ *refco.Y[int]) {\n%s\n\t})\n}", t.name, ind(t.body, "\t\t")))
		funcs = append(funcs, &Func{Name: t.name, Gen: true, Elem: "int", Params: []string{"n", "k"}, Args: [][]int{sizes, ks}, Feat: []string{"depth_loop_" + t.name}})
	}
	// delegation chains: depth d, each level yields once after its delegate is exhausted
	rbody := fmt.Sprintf("vrt.E(%d)\nif d <= 0 {\n\t«Yield»(0)\n\treturn\n}\n«YieldFrom»(R1(d-1, k))\n«Yield»(d)", nt())
	ind := func(s, pre string) string { return pre + strings.ReplaceAll(s, "\n", "\n"+pre) }
	src = append(src, fmt.Sprintf("func R1(d, k int) (_ «Iter[int]») {\n%s\n\treturn\n}", ind(rbody, "\t")))
	ref = append(ref, fmt.Sprintf("func R1(d, k int) «Iter[int]» {\n\treturn refco.Go(func(ʏ *refco.Y[int]) {\n%s\n\t})\n}", ind(rbody, "\t\t")))
	funcs = append(funcs, &Func{Name: "R1", Gen: true, Elem: "int", Params: []string{"d", "k"}, Args: [][]int{{4, 8, 16, 32, 64}, {1}}, Feat: []string{"depth_delegation_chain"}})
	p := &Prog{Pkg: "p", Import: []string{"dot", "co", "renamed"}[r.Intn(3)]}
	p.Files = []*File{{Name: "gen_depth.go", UsesAPI: true, Decls: src, RefDecls: ref, Extern: funcs}}
	return p
}
