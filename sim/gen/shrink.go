package gen

import "encoding/json"

// CloneFunc deep-copies a function.
func CloneFunc(f *Func) *Func {
	b, _ := json.Marshal(f)
	var g Func
	json.Unmarshal(b, &g)
	return &g
}

// Size counts statements (the shrinker's measure).
func (f *Func) Size() int {
	n := 0
	walk(f.Body, func(*S) { n++ })
	return n
}

func isGuard(s *S) bool {
	return s.K == SIf && len(s.Body) == 1 && (s.Body[0].K == SBreak || s.Body[0].K == SReturn) && s.Else == nil
}

// Reductions returns all one-step reductions of f that keep every loop bounded by
// construction: counter increments, loop guards and the leading yield of an infinite loop
// are never removed; conditions are never replaced.
func Reductions(f *Func) []*Func {
	var out []*Func
	// enumerate statement lists by a stable path: list index in pre-order
	type site struct {
		list int
		idx  int
		kind string
	}
	var sites []site
	nlist := 0
	var visit func(ss []*S, inf bool)
	visit = func(ss []*S, infLoopBody bool) {
		li := nlist
		nlist++
		for i, s := range ss {
			if s.K != SIncDec && !isGuard(s) && !(infLoopBody && i == 0 && s.K == SYield) && !(s.K == SReturn && s.E != nil) {
				sites = append(sites, site{li, i, "delete"})
			}
			switch s.K {
			case SBlock:
				sites = append(sites, site{li, i, "unwrap"})
			case SIf:
				sites = append(sites, site{li, i, "unwrap"})
				if s.Else != nil {
					sites = append(sites, site{li, i, "unwrap-else"}, site{li, i, "drop-else"})
				}
			case SSwitch, STypeSwitch:
				for c := range s.Cases {
					if len(s.Cases) > 1 {
						sites = append(sites, site{li, i, "drop-case-" + string(rune('0'+c))})
					}
				}
			case SYield, SDecl, SAssign:
				if s.E != nil && s.E.K != XLit {
					sites = append(sites, site{li, i, "literal"})
				}
			case SEff:
				if len(s.Reads) > 0 {
					sites = append(sites, site{li, i, "noreads"})
				}
			}
			// recurse
			switch s.K {
			case SFor:
				visit(s.Body, s.E == nil)
			case SFuncLit, SRange, SBlock:
				visit(s.Body, false)
			case SIf:
				visit(s.Body, false)
				if s.Else != nil {
					visit(s.Else, false)
				}
			case SSwitch, STypeSwitch:
				for _, c := range s.Cases {
					visit(c.Body, false)
				}
			}
		}
	}
	visit(f.Body, false)
	for _, st := range sites {
		g := CloneFunc(f)
		n := 0
		done := false
		var apply func(pss *[]*S)
		apply = func(pss *[]*S) {
			if done {
				return
			}
			li := n
			n++
			if li == st.list {
				ss := *pss
				s := ss[st.idx]
				switch {
				case st.kind == "delete":
					*pss = append(ss[:st.idx:st.idx], ss[st.idx+1:]...)
				case st.kind == "unwrap":
					*pss = append(ss[:st.idx:st.idx], append(append([]*S{}, s.Body...), ss[st.idx+1:]...)...)
				case st.kind == "unwrap-else":
					*pss = append(ss[:st.idx:st.idx], append(append([]*S{}, s.Else...), ss[st.idx+1:]...)...)
				case st.kind == "drop-else":
					s.Else, s.ElsIf = nil, false
				case st.kind == "literal":
					s.E = &X{K: XLit, Lit: 1}
				case st.kind == "noreads":
					s.Reads = nil
				default: // drop-case-N
					c := int(st.kind[len(st.kind)-1] - '0')
					s.Cases = append(s.Cases[:c:c], s.Cases[c+1:]...)
				}
				done = true
				return
			}
			for _, s := range *pss {
				switch s.K {
				case SFor, SFuncLit, SRange, SBlock:
					apply(&s.Body)
				case SIf:
					apply(&s.Body)
					if s.Else != nil {
						apply(&s.Else)
					}
				case SSwitch, STypeSwitch:
					for _, c := range s.Cases {
						apply(&c.Body)
					}
				}
				if done {
					return
				}
			}
		}
		apply(&g.Body)
		if done {
			out = append(out, g)
		}
	}
	return out
}
