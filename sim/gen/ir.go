// Package gen is the workload generator of the compiled-program layer: a small program IR
// for go-co generator functions, a seeded generator over it, and two renderers that walk the
// same tree — the go-co source and the reference rendering on sim/refco — which differ only
// in: Yield/YieldFrom -> ʏ.Yield/ʏ.YieldFrom, generator `return [nil]` -> `return`, the body
// wrapped in refco.Go, Iter[T] -> refco.Iter[T], and `range it` -> `range it.All()`.
package gen

import (
	"fmt"
	"strings"
)

type XK int

const (
	XLit      XK = iota // integer literal
	XVar                // variable read
	XBin                // A Op B
	XV                  // vrt.V(Tag, A)
	XB                  // vrt.B(Tag, A)
	XCall               // Name(Args...)
	XNot                // !A
	XStr                // string literal S
	XRaw                // raw text S (same in both renderings)
	XIndex              // Name[A]
	XLen                // len(Name)
	XAny                // any(A)
	XIterCall           // call producing an iterator: Name(Args...)  (consumer/delegation)
	XMethod             // A.Name(Args...)
)

type X struct {
	K    XK
	Lit  int    `json:",omitempty"`
	Name string `json:",omitempty"`
	Op   string `json:",omitempty"`
	A    *X     `json:",omitempty"`
	B    *X     `json:",omitempty"`
	Tag  int    `json:",omitempty"`
	Args []*X   `json:",omitempty"`
	S    string `json:",omitempty"`
}

type SK int

const (
	SDecl SK = iota
	SAssign
	SIncDec
	SEff
	SYield
	SYieldFrom
	SBlock
	SIf
	SSwitch
	STypeSwitch
	SFor
	SRange
	SBreak
	SContinue
	SReturn
	SExpr
	SFuncLit
	SRaw
	SVarDecl // var Name T (no initialiser)
	SUse     // _ = Name
	SLabeled // unsupported constructs (C12)
	SGoto
	SDefer
	SGo
	SSelect
	SFallthrough
	SSend // Name <- E
)

type Case struct {
	Vals    []*X     `json:",omitempty"` // expression switch: case values / conditions (tag-less)
	Types   []string `json:",omitempty"` // type switch
	Default bool     `json:",omitempty"`
	Body    []*S
}

type S struct {
	K     SK
	ID    int      `json:",omitempty"`
	Name  string   `json:",omitempty"` // declared / assigned / closure name / range key
	Name2 string   `json:",omitempty"` // range value
	Op    string   `json:",omitempty"` // assignment operator, ++/--, range token (:= or =)
	E     *X       `json:",omitempty"`
	Init  *S       `json:",omitempty"`
	Post  *S       `json:",omitempty"`
	Body  []*S     `json:",omitempty"`
	Else  []*S     `json:",omitempty"`
	ElsIf bool     `json:",omitempty"` // Else holds exactly one SIf rendered as "else if"
	Cases []*Case  `json:",omitempty"`
	Tag   int      `json:",omitempty"`
	Reads []string `json:",omitempty"`
	// function literals
	Params []string `json:",omitempty"`
	Gen    bool     `json:",omitempty"` // literal is a generator
	Ret    string   `json:",omitempty"` // result type of a plain literal ("" none, "int", "bool")
	Elem   string   `json:",omitempty"`
	Named  bool     `json:",omitempty"` // generator literal/decl with a named result `(_ Iter[T])`: bare return
	// flags
	OverIter bool   `json:",omitempty"` // SRange over an iterator (consumer loop)
	NoUse    bool   `json:",omitempty"` // SDecl: do not emit `_ = name`
	Nil      bool   `json:",omitempty"` // SReturn in a generator: `return nil` (else bare `return`)
	Src      string `json:",omitempty"` // SRaw: source text
	Ref      string `json:",omitempty"` // SRaw: reference text (if different)
	Type     string `json:",omitempty"` // SVarDecl / SDecl with explicit type
	Label    string `json:",omitempty"`
	RetIter  bool   `json:",omitempty"` // SReturn in a generator with a non-nil iterator operand
}

type Func struct {
	ID     int
	Name   string
	Gen    bool     // generator entry (returns Iter[Elem]); otherwise plain entry returning int
	Params []string // int parameters
	Elem   string
	Named  bool   // `(_ Iter[T])` result, bare returns
	Recv   string `json:",omitempty"` // method receiver type name ("" = function)
	TParam bool   `json:",omitempty"` // generic: func Name[T any](...) — instantiated with int in the registry
	Body   []*S
	Args   [][]int  // per parameter: the values the driver may pass
	Calls  []string `json:",omitempty"` // other generated functions this one references
	Inf    bool     `json:",omitempty"` // may yield forever (consumer truncates)
	Feat   []string `json:",omitempty"` // workload features present (reach probes)
	Hidden bool     `json:",omitempty"` // helper: not an entry of the registry
}

// File groups functions and raw declarations of one source file.
type File struct {
	Name     string
	Funcs    []*Func
	Decls    []string `json:",omitempty"` // raw top-level declarations (same text in both renderings except type names)
	RefDecls []string `json:",omitempty"`
	UsesAPI  bool     // file imports the go-co API
	Extern   []*Func  `json:",omitempty"` // entries defined by raw declarations (registry only)
	Imports  []string `json:",omitempty"` // extra import lines (both renderings)
}

type Prog struct {
	Pkg         string
	Import      string // "dot" | "co" | "renamed"
	SeqImported bool   // the user file already imports seq (under its default name)
	LoadTest    bool   // compile with test packages loaded; the package then has an in-package test file that uses the API
	Files       []*File
}

// Mode selects the rendering.
type Mode struct {
	Ref    bool
	Import string
}

func (m Mode) api(name string) string {
	switch m.Import {
	case "co":
		return "co." + name
	case "renamed":
		return "xco." + name
	}
	return name
}

func (m Mode) iter(elem string) string {
	if m.Ref {
		return "refco.Iter[" + elem + "]"
	}
	return m.api("Iter") + "[" + elem + "]"
}

type w struct {
	b   strings.Builder
	ind int
	m   Mode
}

func (o *w) line(format string, a ...any) {
	o.b.WriteString(strings.Repeat("\t", o.ind))
	fmt.Fprintf(&o.b, format, a...)
	o.b.WriteByte('\n')
}

func (x *X) str(m Mode) string {
	switch x.K {
	case XLit:
		if x.Lit < 0 {
			return fmt.Sprintf("(%d)", x.Lit)
		}
		return fmt.Sprint(x.Lit)
	case XVar:
		return x.Name
	case XBin:
		return "(" + x.A.str(m) + " " + x.Op + " " + x.B.str(m) + ")"
	case XV:
		return fmt.Sprintf("vrt.V(%d, %s)", x.Tag, x.A.str(m))
	case XB:
		return fmt.Sprintf("vrt.B(%d, %s)", x.Tag, x.A.str(m))
	case XCall, XIterCall:
		var a []string
		for _, y := range x.Args {
			a = append(a, y.str(m))
		}
		return x.Name + "(" + strings.Join(a, ", ") + ")"
	case XMethod:
		var a []string
		for _, y := range x.Args {
			a = append(a, y.str(m))
		}
		return x.A.str(m) + "." + x.Name + "(" + strings.Join(a, ", ") + ")"
	case XNot:
		return "!" + x.A.str(m)
	case XStr:
		return fmt.Sprintf("%q", x.S)
	case XRaw:
		return x.S
	case XIndex:
		return x.Name + "[" + x.A.str(m) + "]"
	case XLen:
		return "len(" + x.Name + ")"
	case XAny:
		return "any(" + x.A.str(m) + ")"
	}
	panic("bad expr")
}

func subst(text string, m Mode) string {
	// raw text uses the placeholders «Iter[T]», «Yield», «YieldFrom», «RANGE(x)»
	r := text
	for {
		i := strings.LastIndex(r, "«Iter[") // innermost first: placeholders may nest
		if i < 0 {
			break
		}
		j := strings.Index(r[i:], "]»")
		elem := r[i+len("«Iter[") : i+j]
		r = r[:i] + m.iter(elem) + r[i+j+len("]»"):]
	}
	for {
		i := strings.Index(r, "«RANGE(")
		if i < 0 {
			break
		}
		j := strings.Index(r[i:], ")»")
		e := r[i+len("«RANGE(") : i+j]
		if m.Ref {
			e += ".All()"
		}
		r = r[:i] + e + r[i+j+len(")»"):]
	}
	// explicitly instantiated API calls
	if m.Ref {
		r = strings.ReplaceAll(r, "«Yield[int]»", "ʏ.Yield")
		r = strings.ReplaceAll(r, "«YieldFrom[int]»", "ʏ.YieldFrom")
	} else {
		r = strings.ReplaceAll(r, "«Yield[int]»", m.api("Yield")+"[int]")
		r = strings.ReplaceAll(r, "«YieldFrom[int]»", m.api("YieldFrom")+"[int]")
	}
	if m.Ref {
		r = strings.ReplaceAll(r, "«Yield»", "ʏ.Yield")
		r = strings.ReplaceAll(r, "«YieldFrom»", "ʏ.YieldFrom")
	} else {
		r = strings.ReplaceAll(r, "«Yield»", m.api("Yield"))
		r = strings.ReplaceAll(r, "«YieldFrom»", m.api("YieldFrom"))
	}
	return r
}

// simple renders a simple statement (usable as init/post) without newline.
func (s *S) simple(m Mode) string {
	switch s.K {
	case SDecl:
		if s.Type != "" {
			return fmt.Sprintf("var %s %s = %s", s.Name, s.Type, s.E.str(m))
		}
		return s.Name + " := " + s.E.str(m)
	case SAssign:
		return s.Name + " " + s.Op + " " + s.E.str(m)
	case SIncDec:
		return s.Name + s.Op
	case SEff:
		a := []string{fmt.Sprint(s.Tag)}
		a = append(a, s.Reads...)
		return "vrt.E(" + strings.Join(a, ", ") + ")"
	case SYield:
		if m.Ref {
			return "ʏ.Yield(" + s.E.str(m) + ")"
		}
		return m.api("Yield") + "(" + s.E.str(m) + ")"
	case SYieldFrom:
		if m.Ref {
			return "ʏ.YieldFrom(" + s.E.str(m) + ")"
		}
		return m.api("YieldFrom") + "(" + s.E.str(m) + ")"
	case SExpr:
		return s.E.str(m)
	case SSend:
		return s.Name + " <- " + s.E.str(m)
	case SUse:
		return "_ = " + s.Name
	}
	panic(fmt.Sprintf("not a simple statement: %d", s.K))
}

func (o *w) block(ss []*S) {
	o.ind++
	for _, s := range ss {
		o.stmt(s)
	}
	o.ind--
}

func (o *w) funcLit(s *S) string {
	// returns the header; caller writes the body
	ps := ""
	if len(s.Params) > 0 {
		ps = strings.Join(s.Params, ", ") + " int"
	}
	switch {
	case s.Gen && s.Named && !o.m.Ref:
		return fmt.Sprintf("func(%s) (_ %s)", ps, o.m.iter(s.Elem))
	case s.Gen:
		return fmt.Sprintf("func(%s) %s", ps, o.m.iter(s.Elem))
	case s.Ret != "":
		return fmt.Sprintf("func(%s) %s", ps, s.Ret)
	}
	return fmt.Sprintf("func(%s)", ps)
}

func (o *w) genBody(elem string, body []*S) {
	if o.m.Ref {
		o.ind++
		o.line("return refco.Go(func(ʏ *refco.Y[%s]) {", elem)
		o.block(body)
		o.line("})")
		o.ind--
	} else {
		o.block(body)
	}
}

func (o *w) stmt(s *S) {
	m := o.m
	switch s.K {
	case SDecl:
		o.line("%s", s.simple(m))
		if !s.NoUse {
			o.line("_ = %s", s.Name)
		}
	case SVarDecl:
		o.line("var %s %s", s.Name, subst(s.Type, m))
		if !s.NoUse {
			o.line("_ = %s", s.Name)
		}
	case SAssign, SIncDec, SEff, SYield, SYieldFrom, SExpr, SSend, SUse:
		o.line("%s", s.simple(m))
	case SBlock:
		o.line("{")
		o.block(s.Body)
		o.line("}")
	case SIf:
		o.ifStmt(s, "")
	case SSwitch:
		h := "switch "
		if s.Init != nil {
			h += s.Init.simple(m) + "; "
		}
		if s.E != nil {
			h += s.E.str(m) + " "
		}
		o.line("%s{", h)
		for _, c := range s.Cases {
			if c.Default {
				o.line("default:")
			} else {
				var vs []string
				for _, v := range c.Vals {
					vs = append(vs, v.str(m))
				}
				o.line("case %s:", strings.Join(vs, ", "))
			}
			o.block(c.Body)
		}
		o.line("}")
	case STypeSwitch:
		h := "switch "
		if s.Init != nil {
			h += s.Init.simple(m) + "; "
		}
		if s.Name != "" {
			h += s.Name + " := "
		}
		h += s.E.str(m) + ".(type) "
		o.line("%s{", h)
		for _, c := range s.Cases {
			if c.Default {
				o.line("default:")
			} else {
				o.line("case %s:", strings.Join(c.Types, ", "))
			}
			o.ind++
			if s.Name != "" {
				o.line("_ = %s", s.Name)
			}
			o.ind--
			o.block(c.Body)
		}
		o.line("}")
	case SFor:
		init, cond, post := "", "", ""
		if s.Init != nil {
			init = s.Init.simple(m)
		}
		if s.E != nil {
			cond = s.E.str(m)
		}
		if s.Post != nil {
			post = s.Post.simple(m)
		}
		switch {
		case init == "" && post == "" && cond == "":
			o.line("for {")
		case init == "" && post == "":
			o.line("for %s {", cond)
		default:
			o.line("for %s; %s; %s {", init, cond, post)
		}
		o.block(s.Body)
		o.line("}")
	case SRange:
		x := s.E.str(m)
		if s.OverIter && m.Ref {
			x += ".All()"
		}
		switch {
		case s.Name == "" && s.Name2 == "":
			o.line("for range %s {", x)
		case s.Name2 == "":
			o.line("for %s %s range %s {", s.Name, s.Op, x)
		default:
			o.line("for %s, %s %s range %s {", s.Name, s.Name2, s.Op, x)
		}
		o.block(s.Body)
		o.line("}")
	case SBreak:
		if s.Label != "" {
			o.line("break %s", s.Label)
		} else {
			o.line("break")
		}
	case SContinue:
		if s.Label != "" {
			o.line("continue %s", s.Label)
		} else {
			o.line("continue")
		}
	case SReturn:
		switch {
		case s.RetIter && m.Ref:
			// go-co: the operand is evaluated and ignored, the generator ends
			o.line("_ = %s", s.E.str(m))
			o.line("return")
		case s.E != nil:
			o.line("return %s", s.E.str(m))
		case s.Nil && !m.Ref:
			o.line("return nil")
		default:
			o.line("return")
		}
	case SFuncLit:
		o.line("%s := %s {", s.Name, o.funcLit(s))
		if s.Gen {
			o.genBody(s.Elem, s.Body)
		} else {
			o.block(s.Body)
		}
		o.line("}")
		if !s.NoUse {
			o.line("_ = %s", s.Name)
		}
	case SRaw:
		text := s.Src
		if m.Ref && s.Ref != "" {
			text = s.Ref
		}
		for _, l := range strings.Split(strings.TrimRight(subst(text, m), "\n"), "\n") {
			o.line("%s", l)
		}
	case SLabeled:
		o.ind--
		o.line("%s:", s.Label)
		o.ind++
		for _, b := range s.Body {
			o.stmt(b)
		}
	case SGoto:
		o.line("goto %s", s.Label)
	case SDefer:
		o.line("defer %s", s.E.str(m))
	case SGo:
		if s.E != nil {
			o.line("go %s", s.E.str(m))
		} else {
			o.line("go %s", s.Init.simple(m))
		}
	case SSelect:
		o.line("select {")
		for _, c := range s.Cases {
			if c.Default {
				o.line("default:")
			} else {
				o.line("case %s:", c.Vals[0].str(m))
			}
			o.block(c.Body)
		}
		o.line("}")
	case SFallthrough:
		o.line("fallthrough")
	default:
		panic(fmt.Sprintf("bad stmt kind %d", s.K))
	}
}

func (o *w) ifStmt(s *S, prefix string) {
	m := o.m
	h := prefix + "if "
	if s.Init != nil {
		h += s.Init.simple(m) + "; "
	}
	h += s.E.str(m) + " {"
	if prefix == "" {
		o.line("%s", h)
	} else {
		// continue the "} else if" line
		o.b.WriteString(strings.Repeat("\t", o.ind) + h + "\n")
	}
	o.block(s.Body)
	switch {
	case s.ElsIf && len(s.Else) == 1 && s.Else[0].K == SIf:
		o.ifStmt(s.Else[0], "} else ")
		return
	case s.Else != nil:
		o.line("} else {")
		o.block(s.Else)
	}
	o.line("}")
}

func (o *w) fn(f *Func) {
	m := o.m
	ps := ""
	if len(f.Params) > 0 {
		ps = strings.Join(f.Params, ", ") + " int"
	}
	name := f.Name
	recv := ""
	if f.Recv != "" {
		recv = "(r " + f.Recv + ") "
	}
	if f.TParam {
		name += "[T any]"
	}
	switch {
	case f.Gen && f.Named && !m.Ref:
		o.line("func %s%s(%s) (_ %s) {", recv, name, ps, m.iter(f.Elem))
	case f.Gen:
		o.line("func %s%s(%s) %s {", recv, name, ps, m.iter(f.Elem))
	default:
		o.line("func %s%s(%s) int {", recv, name, ps)
	}
	if f.Gen {
		o.genBody(f.Elem, f.Body)
	} else {
		o.block(f.Body)
	}
	o.line("}")
	o.line("")
}

// RenderFile renders one source file in the given mode.
func (p *Prog) RenderFile(f *File, m Mode) string {
	o := &w{m: m}
	m.Import = p.Import
	o.m = m
	o.line("package %s", p.Pkg)
	o.line("")
	o.line("import (")
	o.ind++
	if m.Ref {
		o.line("%q", "verif/sim/refco")
	} else if f.UsesAPI && (len(f.Funcs) > 0 || len(f.Extern) > 0) {
		switch p.Import {
		case "co":
			o.line("%q", "github.com/goghcrow/go-co")
		case "renamed":
			o.line("xco %q", "github.com/goghcrow/go-co")
		default:
			o.line(". %q", "github.com/goghcrow/go-co")
		}
		if p.SeqImported {
			o.line("%q", "github.com/goghcrow/go-co/seq")
		}
	}
	o.line("%q", "verif/sim/vrt")
	for _, imp := range f.Imports {
		o.line("%s", imp)
	}
	o.ind--
	o.line(")")
	o.line("")
	if m.Ref {
		o.line("var _ = refco.KillAll")
	} else if f.UsesAPI && (len(f.Funcs) > 0 || len(f.Extern) > 0) && p.SeqImported {
		o.line("var _ seq.Iterator[int]")
	}
	o.line("var _ = vrt.E")
	o.line("")
	decls := f.Decls
	if m.Ref && f.RefDecls != nil {
		decls = f.RefDecls
	}
	for _, d := range decls {
		for _, l := range strings.Split(strings.TrimRight(subst(d, m), "\n"), "\n") {
			o.line("%s", l)
		}
		o.line("")
	}
	for _, fn := range f.Funcs {
		o.fn(fn)
	}
	return o.b.String()
}

// RenderFunc renders a single function (samples, replay files).
func (p *Prog) RenderFunc(f *Func, m Mode) string {
	for _, file := range p.Files {
		for _, e := range file.Extern {
			if e == f {
				m.Import = p.Import
				d := file.Decls
				if m.Ref && file.RefDecls != nil {
					d = file.RefDecls
				}
				return subst(strings.Join(d, "\n"), m)
			}
		}
	}
	o := &w{m: m}
	m.Import = p.Import
	o.m = m
	o.fn(f)
	return o.b.String()
}

// RenderReg renders the registry file (identical text for every implementation).
func (p *Prog) RenderReg() string { return p.RenderRegPrefixed("") }

// RenderRegPrefixed renders the registry with every entry name prefixed (several variants
// of one program linked into one binary).
func (p *Prog) RenderRegPrefixed(prefix string) string {
	var b strings.Builder
	fmt.Fprintf(&b, "package %s\n\nimport \"verif/sim/vrt\"\n\nvar Entries = []vrt.Entry{\n", p.Pkg)
	for _, f := range p.Files {
		for _, fn := range append(append([]*Func{}, f.Funcs...), f.Extern...) {
			if fn.Hidden {
				continue
			}
			var a []string
			for i := range fn.Params {
				a = append(a, fmt.Sprintf("a[%d]", i))
			}
			call := fn.Name
			if fn.Recv != "" {
				call = fn.Recv + "{}." + fn.Name
			}
			if fn.TParam {
				call += "[int]"
			}
			call += "(" + strings.Join(a, ", ") + ")"
			args := "[][]int{"
			for _, vs := range fn.Args {
				args += "{"
				for i, v := range vs {
					if i > 0 {
						args += ", "
					}
					args += fmt.Sprint(v)
				}
				args += "}, "
			}
			args += "}"
			if fn.Gen {
				fmt.Fprintf(&b, "\t{Name: %q, Arity: %d, Args: %s, Inf: %v, New: func(a []int) vrt.Iter { return vrt.Wrap[%s](%s) }},\n", prefix+fn.Name, len(fn.Params), args, fn.Inf, fn.Elem, call)
			} else {
				fmt.Fprintf(&b, "\t{Name: %q, Arity: %d, Args: %s, Call: func(a []int) int { return %s }},\n", prefix+fn.Name, len(fn.Params), args, call)
			}
		}
	}
	b.WriteString("}\n")
	return b.String()
}
