package gen

// Known-finding quarantine: the trigger shapes of recorded, unrepaired defects are removed
// from random generation (each has a pinned scenario instead, see known_findings.txt).
// The predicates are written against the IR and are deliberately narrow.

func simpleYields(s *S) bool { return s != nil && (s.K == SYield || s.K == SYieldFrom) }

// containsYield: a Yield/YieldFrom inside s, not descending into function literals.
func containsYield(s *S) bool {
	if s == nil {
		return false
	}
	return hasYield([]*S{s})
}

// quarantine rewrites the offending break/continue statements of a generator body into
// plain effects. It returns how many statements were neutralised per finding.
func (g *G) quarantine(body []*S) map[string]int {
	out := map[string]int{}
	neutral := func(s *S, why string) {
		*s = S{K: SEff, ID: s.ID, Tag: g.nextTag()}
		out[why]++
	}
	// ctx: innermost breakable is a switch and we are (so far) not inside a thunk of it;
	// inThunk: statements here will be moved into a continuation thunk of that switch;
	// yPost: innermost loop is a for with a yielding post.
	var lst func(ss []*S, inSwitch, inThunk, yPost bool)
	var one func(s *S, inSwitch, inThunk, yPost bool)
	lst = func(ss []*S, inSwitch, inThunk, yPost bool) {
		seenYield := false
		for i, s := range ss {
			// statements after a yielding statement move into a continuation thunk; a yielding
			// compound statement that is followed by more statements moves, as a whole, into
			// the first thunk of a Combine
			moved := seenYield || (containsYield(s) && i < len(ss)-1)
			one(s, inSwitch, inThunk || (inSwitch && moved), yPost)
			if containsYield(s) {
				seenYield = true
			}
		}
	}
	one = func(s *S, inSwitch, inThunk, yPost bool) {
		switch s.K {
		case SBreak:
			if g.cfg.Quar["A1"] && inSwitch && inThunk {
				neutral(s, "A1")
			}
		case SContinue:
			if g.cfg.Quar["A2"] && yPost {
				neutral(s, "A2")
			}
		case SBlock:
			// a block containing a yield becomes a Delay thunk as a whole
			lst(s.Body, inSwitch, inThunk || (inSwitch && containsYield(s)), yPost)
		case SIf:
			lst(s.Body, inSwitch, inThunk, yPost)
			lst(s.Else, inSwitch, inThunk, yPost)
		case SSwitch, STypeSwitch:
			for _, c := range s.Cases {
				lst(c.Body, true, false, yPost)
			}
		case SFor:
			lst(s.Body, false, false, simpleYields(s.Post))
		case SRange:
			lst(s.Body, false, false, false)
		case SFuncLit:
			if s.Gen {
				lst(s.Body, false, false, false)
			}
		}
	}
	lst(body, false, false, false)
	return out
}
