package gen

import (
	"fmt"
	"strings"

	"verif/sim/prng"
)

// Injection describes one unsupported construct spliced into a supported program (C12).
type Injection struct {
	Kind    string
	Control bool // negative control: the construct sits where it must be accepted
}

var injectKinds = []string{"goto", "labelled-break", "labelled-continue", "select-default", "select-recv", "defer", "defer-in-if",
	"fallthrough-yielding", "range-func", "range-ptr-array", "yield-if-init", "yield-switch-init", "go-yield",
	// the construct without any yield of its own, directly in the generator body (not in a closure)
	"select-break-noyield", "labelled-break-noyield", "goto-noyield", "defer-noyield", "select-default-noyield",
	// constructs placed inside an otherwise trivial (non-yielding) loop of the generator body
	"defer-in-plain-loop", "select-in-plain-loop", "labelled-range", "yield-as-value",
	// constructs inside a range statement that stays native in a generator (pointer to array, function)
	"defer-in-ptr-range", "defer-in-func-range", "select-in-ptr-range", "goto-in-func-range",
	// a yield in the initialiser of an if / else-if whose chain ALSO has a yielding branch
	"yield-if-init-yielding-branch", "yield-elseif-init-yielding-branch", "yield-if-init-yielding-else",
	// a yield in the initialiser of a for / switch nested in a range statement that stays native
	"yield-for-init-in-func-range", "yield-switch-init-in-ptr-range",
	// index-only range over a NIL pointer to an array: the operand is not evaluated (its length
	// is a constant), the loop runs len times without dereferencing the pointer
	"range-nil-ptr-array-index-only", "range-nil-ptr-array-no-variable",
	// a range that stays native (its body does not yield: supported) whose body leaves or
	// continues it with an unlabelled break / continue
	"native-range-func-break-noyield", "native-range-ptr-continue-noyield", "native-range-func-in-yielding-loop-noyield",
	// a goto in a plain closure that jumps forward over a range loop (negative control only)
	"goto-over-range",
	// a defer next to an UNREACHABLE yield in a range that stays native
	"defer-and-dead-yield-in-func-range",
	// an unsupported statement reachable only through the else-if / else arms of an if chain in
	// which no arm yields
	"defer-in-else-if-arm", "select-in-else-arm", "defer-in-third-arm",
	// Yield taken as a function value OUTSIDE any function (a package-level variable) and
	// called through it in the generator: the call is not a yield for the compiler
	"yield-as-package-level-value",
	// fallthrough directly behind a compound statement that yields on some paths only
	"fallthrough-after-yielding-if", "fallthrough-after-yielding-if-else", "fallthrough-after-yielding-switch",
	// a defer BEHIND a yield of the same loop body / branch / bare block, with nothing that
	// yields behind it in its own statement list (deferred calls run when the generator ends)
	"defer-after-yield-in-loop", "defer-after-yield-in-if", "defer-in-bare-block-after-yield",
	// a labelled loop left by 'break L' from inside a TYPE switch; index-only range over a NIL
	// pointer to an array with a yield in its body
	"labelled-break-in-type-switch", "range-nil-ptr-array-index-only-yielding",
	// defer / select in a clause of a switch in which NOTHING yields (the switch stays native)
	"defer-in-nonyielding-switch-clause", "select-in-nonyielding-type-switch-clause",
	// a yield in the initialiser of an else-if whose HEAD condition is true in one round and
	// false in the next: the initialiser belongs to the else path only
	"yield-elseif-init-head-taken",
	// a defer inside a LABELLED loop that does not yield (the loop stays native)
	"defer-in-labelled-native-loop"}

// rawInject returns the source text of the construct (placeholders as in templates).
func rawInject(kind string, tag func() int, control bool) string {
	y := func(e string) string {
		if control {
			return fmt.Sprintf("vrt.E(%d, %s)", tag(), e)
		}
		return "«Yield»(" + e + ")"
	}
	switch kind {
	case "goto":
		return fmt.Sprintf("goto L9\nL9:\n\tvrt.E(%d)\n%s", tag(), y("91"))
	case "labelled-break":
		return fmt.Sprintf("L9:\n\tfor i9 := 0; i9 < 3; i9++ {\n\t\t%s\n\t\tfor {\n\t\t\tbreak L9\n\t\t}\n\t}", y("i9"))
	case "labelled-continue":
		return fmt.Sprintf("L9:\n\tfor i9 := 0; i9 < 3; i9++ {\n\t\tfor j9 := 0; j9 < 2; j9++ {\n\t\t\tif j9 == 1 {\n\t\t\t\tcontinue L9\n\t\t\t}\n\t\t\t%s\n\t\t}\n\t}", y("i9*10+j9"))
	case "select-default":
		return fmt.Sprintf("select {\ndefault:\n\t%s\n}", y("92"))
	case "select-recv":
		return fmt.Sprintf("ch9 := make(chan int, 1)\nch9 <- 5\nselect {\ncase v9 := <-ch9:\n\t%s\ndefault:\n\tvrt.E(%d)\n}", y("v9"), tag())
	case "defer":
		return fmt.Sprintf("defer vrt.E(%d)\n%s", tag(), y("93"))
	case "defer-in-if":
		return fmt.Sprintf("if len(\"x\") == 1 {\n\tdefer vrt.E(%d)\n}\n%s", tag(), y("94"))
	case "fallthrough-yielding":
		return fmt.Sprintf("switch 1 {\ncase 1:\n\t%s\n\tfallthrough\ncase 2:\n\t%s\n}", y("95"), y("96"))
	case "fallthrough-after-yielding-if":
		return fmt.Sprintf("for f9 := 0; f9 < 2; f9++ {\n\tswitch 1 {\n\tcase 1:\n\t\tif f9 == 1 {\n\t\t\t%s\n\t\t}\n\t\tfallthrough\n\tcase 2:\n\t\t%s\n\t}\n\tvrt.E(%d, f9)\n}", y("95"), y("96+f9"), tag())
	case "fallthrough-after-yielding-if-else":
		return fmt.Sprintf("for f9 := 0; f9 < 2; f9++ {\n\tswitch 1 {\n\tcase 1:\n\t\tif f9 == 0 {\n\t\t\tvrt.E(%d)\n\t\t} else {\n\t\t\t%s\n\t\t}\n\t\tfallthrough\n\tcase 2:\n\t\t%s\n\t}\n}", tag(), y("95"), y("96+f9"))
	case "fallthrough-after-yielding-switch":
		return fmt.Sprintf("for f9 := 0; f9 < 3; f9++ {\n\tswitch {\n\tcase f9 < 2:\n\t\tswitch f9 {\n\t\tcase 1:\n\t\t\t%s\n\t\t}\n\t\tfallthrough\n\tdefault:\n\t\t%s\n\t}\n}", y("95"), y("96+f9"))
	case "defer-after-yield-in-loop":
		return fmt.Sprintf("for d9 := 0; d9 < 3; d9++ {\n\t%s\n\tdefer vrt.E(%d, d9)\n}\nvrt.E(%d)\n%s\nvrt.E(%d)", y("d9"), tag(), tag(), y("99"), tag())
	case "defer-after-yield-in-if":
		return fmt.Sprintf("if vrt.B(%d, true) {\n\t%s\n\tdefer vrt.E(%d)\n}\nvrt.E(%d)\n%s\nvrt.E(%d)", tag(), y("98"), tag(), tag(), y("97"), tag())
	case "defer-in-bare-block-after-yield":
		return fmt.Sprintf("%s\n{\n\tdefer vrt.E(%d)\n}\nvrt.E(%d)\n%s\nvrt.E(%d)", y("96"), tag(), tag(), y("95"), tag())
	case "labelled-break-in-type-switch":
		return fmt.Sprintf("L9:\n\tfor i9 := 0; i9 < 6; i9++ {\n\t\tswitch x9 := any(i9).(type) {\n\t\tcase int:\n\t\t\tif x9 == 3 {\n\t\t\t\tbreak L9\n\t\t\t}\n\t\t\t%s\n\t\tcase string:\n\t\t\tvrt.E(%d)\n\t\t}\n\t}\n%s", y("x9"), tag(), y("-4"))
	case "range-nil-ptr-array-index-only-yielding":
		return fmt.Sprintf("var np9 *[3]int\nfor i9 := range np9 {\n\t%s\n}\nvrt.E(%d)", y("i9+40"), tag())
	case "defer-in-nonyielding-switch-clause":
		return fmt.Sprintf("switch {\ncase vrt.B(%d, true):\n\tvrt.E(%d)\n\tdefer vrt.E(%d)\ndefault:\n\tvrt.E(%d)\n}\nfor d9 := 0; d9 < 2; d9++ {\n\t%s\n}\nvrt.E(%d)", tag(), tag(), tag(), tag(), y("d9+60"), tag())
	case "select-in-nonyielding-type-switch-clause":
		return fmt.Sprintf("ch9 := make(chan int, 1)\nch9 <- 3\nswitch x9 := any(1).(type) {\ncase int:\n\tselect {\n\tcase v9 := <-ch9:\n\t\tvrt.E(%d, v9+x9)\n\tdefault:\n\t\tvrt.E(%d)\n\t}\n}\n%s", tag(), tag(), y("61"))
	case "range-func":
		return fmt.Sprintf("for v9 := range func(yield func(int) bool) {\n\t_ = yield(1) && yield(2)\n} {\n\t%s\n}", y("v9"))
	case "range-ptr-array":
		return fmt.Sprintf("arr9 := [2]int{7, 8}\nfor _, v9 := range &arr9 {\n\t%s\n}", y("v9"))
	case "yield-if-init":
		return fmt.Sprintf("if «Yield»(97); len(\"x\") == 1 {\n\tvrt.E(%d)\n}", tag())
	case "yield-if-init-yielding-branch":
		return fmt.Sprintf("if «Yield»(75); len(\"x\") == 1 {\n\t«Yield»(74)\n}\nvrt.E(%d)", tag())
	case "yield-elseif-init-yielding-branch":
		return fmt.Sprintf("if len(\"x\") == 2 {\n\tvrt.E(%d)\n} else if «Yield»(73); len(\"x\") == 1 {\n\t«Yield»(72)\n}\nvrt.E(%d)", tag(), tag())
	case "yield-elseif-init-head-taken":
		return fmt.Sprintf("for f9 := 0; f9 < 2; f9++ {\n\tif vrt.B(%d, f9 == 0) {\n\t\tvrt.E(%d)\n\t} else if «Yield»(73 + f9); f9 > 5 {\n\t\tvrt.E(%d)\n\t} else {\n\t\t«Yield»(72)\n\t}\n}", tag(), tag(), tag())
	case "defer-in-labelled-native-loop":
		return fmt.Sprintf("L9:\n\tfor i9 := 0; i9 < 2; i9++ {\n\t\tdefer vrt.E(%d, i9)\n\t\tif i9 == 1 {\n\t\t\tcontinue L9\n\t\t}\n\t\tvrt.E(%d)\n\t}\n%s\nvrt.E(%d)", tag(), tag(), y("94"), tag())
	case "yield-if-init-yielding-else":
		return fmt.Sprintf("if «Yield»(71); len(\"x\") == 2 {\n\tvrt.E(%d)\n} else {\n\t«Yield»(70)\n}", tag())
	case "yield-for-init-in-func-range":
		return fmt.Sprintf("for v9 := range func(yield func(int) bool) {\n\t_ = yield(1) && yield(2)\n} {\n\tfor «Yield»(v9); v9 < 0; {\n\t}\n\tvrt.E(%d, v9)\n}\n«Yield»(69)", tag())
	case "yield-switch-init-in-ptr-range":
		return fmt.Sprintf("arr9 := [2]int{7, 8}\nfor _, v9 := range &arr9 {\n\tswitch «Yield»(v9); v9 {\n\tcase 7:\n\t\tvrt.E(%d)\n\t}\n}\n«Yield»(68)", tag())
	case "range-nil-ptr-array-index-only":
		return fmt.Sprintf("var p9 *[3]int\nfor i9 := range p9 {\n\t%s\n}", y("i9"))
	case "range-nil-ptr-array-no-variable":
		return fmt.Sprintf("var p9 *[2]int\nfor range p9 {\n\t%s\n}", y("66"))
	case "native-range-func-break-noyield":
		return fmt.Sprintf("for v9 := range func(yield func(int) bool) {\n\t_ = yield(1) && yield(2) && yield(3)\n} {\n\tif v9 == 2 {\n\t\tbreak\n\t}\n\tvrt.E(%d, v9)\n}\nvrt.E(%d)\n«Yield»(64)", tag(), tag())
	case "native-range-ptr-continue-noyield":
		return fmt.Sprintf("arr9 := [3]int{7, 8, 9}\nfor i9, v9 := range &arr9 {\n\tif i9 == 1 {\n\t\tcontinue\n\t}\n\tvrt.E(%d, v9)\n}\nvrt.E(%d)\n«Yield»(63)", tag(), tag())
	case "native-range-func-in-yielding-loop-noyield":
		return fmt.Sprintf("for r9 := 0; r9 < 2; r9++ {\n\ts9 := 0\n\tfor v9 := range func(yield func(int) bool) {\n\t\t_ = yield(1) && yield(2) && yield(3)\n\t} {\n\t\tif v9 == 2 {\n\t\t\tcontinue\n\t\t}\n\t\tif v9 == 3 && r9 == 1 {\n\t\t\tbreak\n\t\t}\n\t\ts9 += v9\n\t}\n\tvrt.E(%d, s9)\n\t«Yield»(s9)\n}", tag())
	case "goto-over-range":
		return fmt.Sprintf("if len(\"x\") == 2 {\n\tgoto L9\n}\nfor _, x9 := range []int{1, 2} {\n\tvrt.E(%d, x9)\n}\nL9:\n\tvrt.E(%d)\n%s", tag(), tag(), y("62"))
	case "defer-and-dead-yield-in-func-range":
		return fmt.Sprintf("for v9 := range func(yield func(int) bool) {\n\t_ = yield(1) && yield(2)\n} {\n\tdefer vrt.E(%d, v9)\n\tcontinue\n\t«Yield»(v9)\n}\n«Yield»(61)\nvrt.E(%d)", tag(), tag())
	case "defer-in-else-if-arm":
		return fmt.Sprintf("if len(\"x\") == 2 {\n\tvrt.E(%d)\n} else if len(\"x\") == 1 {\n\tdefer vrt.E(%d)\n}\n«Yield»(60)\nvrt.E(%d)", tag(), tag(), tag())
	case "select-in-else-arm":
		return fmt.Sprintf("ch9 := make(chan int, 1)\nch9 <- 4\nif len(\"x\") == 2 {\n\tvrt.E(%d)\n} else {\n\tselect {\n\tcase v9 := <-ch9:\n\t\tif v9 == 4 {\n\t\t\tbreak\n\t\t}\n\t\tvrt.E(%d)\n\tdefault:\n\t}\n}\n«Yield»(59)", tag(), tag())
	case "defer-in-third-arm":
		return fmt.Sprintf("if len(\"x\") == 2 {\n\tvrt.E(%d)\n} else if len(\"x\") == 3 {\n\tvrt.E(%d)\n} else if len(\"x\") == 1 {\n\tdefer vrt.E(%d)\n} else {\n\tvrt.E(%d)\n}\n«Yield»(58)\nvrt.E(%d)", tag(), tag(), tag(), tag(), tag())
	case "yield-switch-init":
		return fmt.Sprintf("switch «Yield»(98); {\ndefault:\n\tvrt.E(%d)\n}", tag())
	case "go-yield":
		return "go «Yield»(99)"
	case "select-break-noyield":
		return fmt.Sprintf("ch9 := make(chan int, 1)\nch9 <- 5\nselect {\ncase v9 := <-ch9:\n\tvrt.E(%d, v9)\n\tif v9 == 5 {\n\t\tbreak\n\t}\n\tvrt.E(%d)\ndefault:\n\tvrt.E(%d)\n}\n«Yield»(89)", tag(), tag(), tag())
	case "select-default-noyield":
		return fmt.Sprintf("select {\ndefault:\n\tvrt.E(%d)\n}\n«Yield»(88)", tag())
	case "labelled-break-noyield":
		return fmt.Sprintf("L9:\n\tfor i9 := 0; i9 < 3; i9++ {\n\t\tfor {\n\t\t\tvrt.E(%d, i9)\n\t\t\tbreak L9\n\t\t}\n\t}\n«Yield»(87)", tag())
	case "goto-noyield":
		return fmt.Sprintf("if len(\"x\") == 2 {\n\tgoto L9\n}\nvrt.E(%d)\nL9:\n\tvrt.E(%d)\n«Yield»(86)", tag(), tag())
	case "defer-in-plain-loop":
		if control {
			return fmt.Sprintf("for i9 := 0; i9 < 2; i9++ {\n\tdefer vrt.E(%d, i9)\n}\nvrt.E(%d)", tag(), tag())
		}
		return fmt.Sprintf("for i9 := 0; i9 < 2; i9++ {\n\tdefer vrt.E(%d, i9)\n\tvrt.E(%d, i9)\n}\n«Yield»(84)", tag(), tag())
	case "select-in-plain-loop":
		return fmt.Sprintf("ch9 := make(chan int, 2)\nch9 <- 1\nch9 <- 2\nfor i9 := 0; i9 < 3; i9++ {\n\tselect {\n\tcase v9 := <-ch9:\n\t\tif v9 == 2 {\n\t\t\tbreak\n\t\t}\n\t\tvrt.E(%d, v9)\n\tdefault:\n\t\tvrt.E(%d, i9)\n\t}\n}\n%s", tag(), tag(), y("83"))
	case "labelled-range":
		return fmt.Sprintf("L9:\n\tfor i9 := range 3 {\n\t\tfor {\n\t\t\tvrt.E(%d, i9)\n\t\t\tcontinue L9\n\t\t}\n\t}\n%s", tag(), y("82"))
	case "defer-in-ptr-range":
		return fmt.Sprintf("arr9 := [2]int{7, 8}\nfor i9 := range &arr9 {\n\tdefer vrt.E(%d, i9)\n\tvrt.E(%d, i9)\n}\n%s\nvrt.E(%d)", tag(), tag(), y("79"), tag())
	case "defer-in-func-range":
		return fmt.Sprintf("for v9 := range func(yield func(int) bool) {\n\t_ = yield(1) && yield(2)\n} {\n\tdefer vrt.E(%d, v9)\n}\n%s\nvrt.E(%d)", tag(), y("78"), tag())
	case "select-in-ptr-range":
		return fmt.Sprintf("ch9 := make(chan int, 2)\nch9 <- 1\nch9 <- 2\narr9 := [3]int{}\nfor i9 := range &arr9 {\n\tselect {\n\tcase v9 := <-ch9:\n\t\tif v9 == 2 {\n\t\t\tbreak\n\t\t}\n\t\tvrt.E(%d, v9)\n\tdefault:\n\t\tvrt.E(%d, i9)\n\t}\n}\n%s", tag(), tag(), y("77"))
	case "goto-in-func-range":
		return fmt.Sprintf("for v9 := range func(yield func(int) bool) {\n\t_ = yield(1) && yield(2)\n} {\n\tif v9 == 1 {\n\t\tgoto L9\n\t}\n\tvrt.E(%d, v9)\nL9:\n\tvrt.E(%d, v9)\n}\n%s", tag(), tag(), y("76"))
	case "yield-as-value":
		return "y9 := «Yield»[int]\ny9(81)\n«Yield»(80)"
	case "yield-as-package-level-value":
		return "pkgY9(81)\n«Yield»(80)"
	case "defer-noyield":
		return fmt.Sprintf("func() {\n\tdefer vrt.E(%d)\n}()\ndefer vrt.E(%d)\n«Yield»(85)", tag(), tag())
	}
	panic("bad injection kind")
}

// Inject splices the construct at a drawn statement position of the generator f (or, as a
// negative control, inside a plain closure that is called immediately).
func Inject(r *prng.R, f *Func, tag func() int) Injection {
	kinds := injectKinds
	inj := Injection{Kind: kinds[r.Intn(len(kinds))], Control: r.Chance(1, 4)}
	if inj.Control && (strings.HasPrefix(inj.Kind, "yield-if") || strings.HasPrefix(inj.Kind, "yield-for-init") || inj.Kind == "defer-and-dead-yield-in-func-range" || inj.Kind == "defer-in-else-if-arm" || inj.Kind == "select-in-else-arm" || inj.Kind == "defer-in-third-arm" || strings.HasPrefix(inj.Kind, "yield-switch-init-in") || strings.HasPrefix(inj.Kind, "yield-elseif") || inj.Kind == "yield-switch-init" || inj.Kind == "go-yield" || inj.Kind == "yield-as-value" || inj.Kind == "yield-as-package-level-value" || strings.HasSuffix(inj.Kind, "-noyield")) {
		inj.Control = false // these constructs ARE a yield; there is no yield-free control of them
	}
	if inj.Kind == "goto-over-range" {
		inj.Control = true // in the generator body itself it is just another rejected goto
	}
	text := rawInject(inj.Kind, tag, inj.Control)
	var s *S
	if inj.Control {
		ind := "\t" + replaceAll(text, "\n", "\n\t")
		s = &S{K: SRaw, Src: "func() {\n" + ind + "\n}()"}
	} else {
		s = &S{K: SRaw, Src: text}
		if inj.Kind == "yield-as-value" {
			s.Ref = "y9 := ʏ.Yield\ny9(81)\nʏ.Yield(80)" // never run: the program must be rejected
		}
		if inj.Kind == "yield-as-package-level-value" {
			s.Ref = "ʏ.Yield(81)\nʏ.Yield(80)"
		}
	}
	// candidate positions: every statement list of the generator body outside literals,
	// not inside a switch case body for constructs that declare labels twice etc.
	var lists []*[]*S
	var collect func(ss *[]*S, depth int)
	collect = func(ss *[]*S, depth int) {
		lists = append(lists, ss)
		if depth > 2 {
			return
		}
		for _, st := range *ss {
			switch st.K {
			case SBlock, SFor, SRange:
				collect(&st.Body, depth+1)
			case SIf:
				collect(&st.Body, depth+1)
				if !st.ElsIf && st.Else != nil {
					collect(&st.Else, depth+1)
				}
			}
		}
	}
	collect(&f.Body, 0)
	ls := lists[r.Intn(len(lists))]
	n := len(*ls)
	// never after the final return / a terminator: keep the construct live
	pos := 0
	if n > 1 {
		pos = r.Intn(n)
	}
	for pos > 0 {
		k := (*ls)[pos-1].K
		if k == SBreak || k == SContinue || k == SReturn {
			pos--
			continue
		}
		break
	}
	*ls = append((*ls)[:pos:pos], append([]*S{s}, (*ls)[pos:]...)...)
	return inj
}

func replaceAll(s, a, b string) string {
	out := ""
	for {
		i := indexOf(s, a)
		if i < 0 {
			return out + s
		}
		out += s[:i] + b
		s = s[i+len(a):]
	}
}

func indexOf(s, sub string) int {
	for i := 0; i+len(sub) <= len(s); i++ {
		if s[i:i+len(sub)] == sub {
			return i
		}
	}
	return -1
}

// WrongSignature returns raw generator declarations with an invalid result signature; they
// must be rejected (there is no reference behaviour: the source's own type is not an iterator).
// PkgLevelDecls are the declarations an injection needs at file level (source, reference).
func (inj Injection) PkgLevelDecls() (src, ref string) {
	if inj.Kind == "yield-as-package-level-value" {
		return "var pkgY9 = «Yield»[int]", "var pkgY9 = func(int) {}\n\nvar _ = pkgY9"
	}
	return "", ""
}

// AddDecl appends a file-level declaration to both renderings of the file.
func (f *File) AddDecl(src, ref string) {
	if f.RefDecls == nil {
		f.RefDecls = append([]string{}, f.Decls...)
	}
	f.Decls = append(f.Decls, src)
	f.RefDecls = append(f.RefDecls, ref)
}

func WrongSignature(prefix string, tag func() int) []string {
	return []string{
		fmt.Sprintf("func %sW1() («Iter[int]», error) {\n\t«Yield»(1)\n\treturn nil, nil\n}", prefix),
		fmt.Sprintf("func %sW2() int {\n\t«Yield»(1)\n\tvrt.E(%d)\n\treturn 0\n}", prefix, tag()),
	}
}

// NextTag exposes the program's tag counter to the injector.
func (p *Prog) MaxTag() int {
	max := 0
	for _, f := range p.AllFuncs() {
		walk(f.Body, func(s *S) {
			if s.Tag > max {
				max = s.Tag
			}
			var ex func(x *X)
			ex = func(x *X) {
				if x == nil {
					return
				}
				if x.Tag > max {
					max = x.Tag
				}
				ex(x.A)
				ex(x.B)
				for _, a := range x.Args {
					ex(a)
				}
			}
			ex(s.E)
			for _, c := range s.Cases {
				for _, v := range c.Vals {
					ex(v)
				}
			}
		})
	}
	return max
}
