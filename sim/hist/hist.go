// Package hist defines the event history recorded by every simulated run.
package hist

import (
	"fmt"
	"hash/fnv"
	"strings"
)

type Kind uint8

const (
	Inv Kind = iota // consumer call invoked
	Ret             // consumer call returned
	Eff             // generator-side (or workload-side) effect
	Pan             // consumer call ended in a panic
	Mut             // simulator-side step (mutator / producer / bystander op)
)

var kindName = [...]string{"inv", "ret", "eff", "panic", "mut"}

// Event is one entry of a history. The global sequence number is the index in the slice.
type Event struct {
	K   Kind
	Th  int    // logical thread
	H   int    // iterator handle the event belongs to (-1: none)
	Op  string // consumer op name; for Eff the empty string
	Tag int    // effect tag
	V   []int64
	S   string // rendered value for non-integer results / panic values
	OK  int8   // -1 n/a, 0 false, 1 true
}

func (e Event) String() string {
	var b strings.Builder
	fmt.Fprintf(&b, "T%d h%d %s", e.Th, e.H, kindName[e.K])
	if e.Op != "" {
		b.WriteString(" " + e.Op)
	}
	if e.K == Eff {
		fmt.Fprintf(&b, " #%d", e.Tag)
	}
	if len(e.V) > 0 {
		fmt.Fprintf(&b, " %v", e.V)
	}
	if e.S != "" {
		fmt.Fprintf(&b, " %q", e.S)
	}
	if e.OK >= 0 {
		fmt.Fprintf(&b, " ok=%v", e.OK == 1)
	}
	return b.String()
}

func (e Event) Equal(o Event) bool {
	if e.K != o.K || e.Th != o.Th || e.H != o.H || e.Op != o.Op || e.Tag != o.Tag || e.S != o.S || e.OK != o.OK || len(e.V) != len(o.V) {
		return false
	}
	for i := range e.V {
		if e.V[i] != o.V[i] {
			return false
		}
	}
	return true
}

type H []Event

// FirstDiff returns the index of the first differing event, or -1 if the histories are equal.
func FirstDiff(a, b H) int {
	n := len(a)
	if len(b) < n {
		n = len(b)
	}
	for i := 0; i < n; i++ {
		if !a[i].Equal(b[i]) {
			return i
		}
	}
	if len(a) != len(b) {
		return n
	}
	return -1
}

func (h H) Strings() []string {
	out := make([]string, len(h))
	for i, e := range h {
		out[i] = e.String()
	}
	return out
}

func (h H) Digest() uint64 {
	d := fnv.New64a()
	for _, e := range h {
		d.Write([]byte(e.String()))
		d.Write([]byte{'\n'})
	}
	return d.Sum64()
}

// Project keeps the events for which keep returns true.
func (h H) Project(keep func(Event) bool) H {
	var out H
	for _, e := range h {
		if keep(e) {
			out = append(out, e)
		}
	}
	return out
}

// At renders event i, or "<end>" when i is past the end.
func (h H) At(i int) string {
	if i < 0 || i >= len(h) {
		return "<end of history>"
	}
	return h[i].String()
}
