package layerc

import (
	"fmt"
	"os"
	"path/filepath"
	"regexp"
	"sort"
	"strings"
	"time"

	"verif/sim/core"
	"verif/sim/driver"
	"verif/sim/ev"
	"verif/sim/gen"
	"verif/sim/prng"
)

type c12pkg struct {
	name     string
	prog     *gen.Prog
	inj      gen.Injection
	target   string
	wrongSig bool
	verdict  string // OK | PANIC msg
	built    bool
}

var pkgLine = regexp.MustCompile(`(?m)^PKG (\S+) (OK|PANIC)(?: (.*))?$`)

// C12: a supported program with one unsupported construct injected at a drawn statement
// position of a generator body (or, as negative control, inside a plain closure, where it
// must be accepted). Oracle: compilation fails with a diagnostic, OR the output builds and
// its histories equal the reference's. Each program is its own package, so one rejection
// does not hide the others.
func C12(j *core.Job) {
	env := NewEnv()
	defer env.Close()
	rep := j.Rep
	for _, k := range []string{"rejected_with_diagnostic", "accepted_and_equal_to_source", "controls_accepted", "violations_accepted_but_different", "violations_control_rejected", "violations_output_does_not_build", "violations_must_reject_accepted"} {
		rep.Count(k, 0)
	}
	nPkgs := 20
	for _, bn := range j.Batches {
		dir := filepath.Join(env.Root, fmt.Sprintf("c12_%d", bn))
		b := &Batch{env: env, Dir: dir}
		var pkgs []*c12pkg
		for i := 0; i < nPkgs; i++ {
			r := prng.Derive(j.Seed, "C12", bn, i)
			cfg := gen.Swarm(prng.Derive(j.Seed, "C12", bn, i, "cfg"), "all")
			cfg.NFuncs, cfg.NFiles = 2+r.Intn(2), 1
			cfg.Prefix = fmt.Sprintf("P%d", i)
			cfg.DeadPct = 0
			name := fmt.Sprintf("p%d", i)
			p := gen.GenProg(prng.Derive(j.Seed, "C12", bn, i, "prog"), cfg, name)
			pk := &c12pkg{name: name, prog: p}
			// keep only the generated generator functions (drop template files of the all profile)
			var files []*gen.File
			for _, f := range p.Files {
				if len(f.Funcs) > 0 || strings.HasSuffix(f.Name, "helpers.go") {
					files = append(files, f)
				}
			}
			p.Files = files
			tag := p.MaxTag() + 1000
			next := func() int { tag++; return tag }
			if i%10 == 9 {
				pk.wrongSig = true
				p.Files[0].Decls = append(p.Files[0].Decls, gen.WrongSignature(cfg.Prefix, next)...)
				pk.inj = gen.Injection{Kind: "wrong-result-signature"}
			} else {
				fs := p.Files[0].Funcs
				target := fs[len(fs)-1]
				pk.target = target.Name
				pk.inj = gen.Inject(r, target, next)
				if src, ref := pk.inj.PkgLevelDecls(); src != "" {
					p.Files[0].AddDecl(src, ref)
				}
			}
			rep.Count("inject_"+pk.inj.Kind, 1)
			if pk.inj.Control {
				rep.Count("negative_controls", 1)
			}
			pkgs = append(pkgs, pk)
		}
		// write module, sources and references
		mod := fmt.Sprintf("module scratch\n\ngo 1.23\n\nrequire (\n\tgithub.com/goghcrow/go-co v0.0.0\n\tverif/sim v0.0.0\n)\n\nreplace github.com/goghcrow/go-co => %s\n\nreplace verif/sim => %s\n", env.Repo, env.SimDir)
		writeFile(filepath.Join(dir, "go.mod"), mod)
		sum, err := os.ReadFile(filepath.Join(env.SimDir, "go.sum"))
		must(err)
		writeFile(filepath.Join(dir, "go.sum"), string(sum))
		var names []string
		for _, pk := range pkgs {
			names = append(names, pk.name)
			for _, f := range pk.prog.Files {
				writeFile(filepath.Join(dir, "src", pk.name, f.Name), pk.prog.RenderFile(f, gen.Mode{}))
				if !pk.wrongSig {
					writeFile(filepath.Join(dir, "ref", pk.name, f.Name), pk.prog.RenderFile(f, gen.Mode{Ref: true}))
				}
			}
			reg := pk.prog.RenderReg()
			writeFile(filepath.Join(dir, "src", pk.name, "reg.go"), reg)
			if !pk.wrongSig {
				writeFile(filepath.Join(dir, "ref", pk.name, "reg.go"), reg)
			}
		}
		// source gate: every injected program is valid Go against the stub API
		if out, err := b.run(5*time.Minute, dir, "go", "build", "./src/...", "./ref/..."); err != nil {
			keep := filepath.Join(os.TempDir(), "vsim-generator-bug")
			os.RemoveAll(keep)
			os.Rename(dir, keep)
			ev.Infra("C12 workload does not build (kept in %s):\n%s", keep, firstLines(out, 30))
		}
		out, err := b.run(10*time.Minute, dir, env.Codrv, append([]string{"multi", "src", "opt"}, names...)...)
		if err != nil {
			ev.Infra("codrv multi failed: %v\n%s", err, firstLines(out, 20))
		}
		verdicts := map[string][2]string{}
		for _, m := range pkgLine.FindAllStringSubmatch(out, -1) {
			verdicts[m[1]] = [2]string{m[2], m[3]}
		}
		viol := func(pk *c12pkg, class, detail string) {
			if len(rep.Violations) >= maxViolationsPerWorker {
				return
			}
			doc := &CReplay{Property: "C12", Layer: "C", Kind: "inject", Seed: j.Seed, Batch: bn, Func: pk.target, Pkg: pk.name,
				Files: filesOf(pk.prog), Class: class, Msg: detail, Stage: pk.inj.Kind}
			path := ev.WriteReplay("C12", int64(j.Seed), bn*1000+len(rep.Violations), doc)
			rep.Violations = append(rep.Violations, ev.Violation{Prop: "C12", Class: class + " [" + pk.inj.Kind + "]: " + firstLines(detail, 1), Replay: path})
		}
		var linked []*c12pkg
		for _, pk := range pkgs {
			v, ok := verdicts[pk.name]
			if !ok {
				ev.Infra("no verdict for package %s:\n%s", pk.name, firstLines(out, 20))
			}
			rep.Evals++
			rep.Nontrivial(prng.Derive(0, pk.inj.Kind, fmt.Sprint(pk.inj.Control), gen.Digest(strings.Join(sortedFileTexts(pk.prog), ""))).Seed())
			switch {
			case v[0] == "PANIC" && pk.inj.Control:
				rep.Count("violations_control_rejected", 1)
				viol(pk, "negative control rejected (construct inside a plain closure must be accepted)", v[1])
			case v[0] == "PANIC":
				rep.Count("rejected_with_diagnostic", 1)
				rep.SetAdd("diagnostics", prng.Derive(0, diagClass(v[1])).Seed())
			case pk.wrongSig || pk.inj.Kind == "go-yield" || pk.inj.Kind == "yield-as-value" || pk.inj.Kind == "yield-as-package-level-value":
				rep.Count("violations_must_reject_accepted", 1)
				viol(pk, "accepted a program that has no source-level meaning (must be rejected)", "")
			default:
				linked = append(linked, pk)
			}
		}
		// link and run what was accepted
		for round := 0; round < 4 && len(linked) > 0; round++ {
			var imp, ap strings.Builder
			for _, pk := range linked {
				fmt.Fprintf(&imp, "\topt%[1]s \"scratch/opt/%[1]s\"\n\tref%[1]s \"scratch/ref/%[1]s\"\n", pk.name)
				fmt.Fprintf(&ap, "\tref = append(ref, ref%[1]s.Entries...)\n\topt = append(opt, opt%[1]s.Entries...)\n", pk.name)
				// files of the package the compiler did not emit (registry, plain helper file)
				ents, _ := os.ReadDir(filepath.Join(dir, "src", pk.name))
				for _, e := range ents {
					dst := filepath.Join(dir, "opt", pk.name, e.Name())
					if _, err := os.Stat(dst); err != nil {
						data, _ := os.ReadFile(filepath.Join(dir, "src", pk.name, e.Name()))
						writeFile(dst, string(data))
					}
				}
			}
			writeFile(filepath.Join(dir, "main.go"), "package main\n\nimport (\n"+imp.String()+"\t\"verif/sim/driver\"\n\t\"verif/sim/vrt\"\n)\n\nfunc main() {\n\tvar ref, opt []vrt.Entry\n"+ap.String()+"\tdriver.Main(ref, opt, opt)\n}\n")
			out, err := b.run(10*time.Minute, dir, "go", "build", "-gcflags=-e", "-o", "run", ".")
			if err == nil {
				break
			}
			bad := map[string]string{}
			for _, m := range errLine.FindAllStringSubmatch(out, -1) {
				parts := strings.Split(m[1], "/")
				if parts[0] != "opt" {
					ev.Infra("C12 reference does not build:\n%s", firstLines(out, 20))
				}
				if _, ok := bad[parts[1]]; !ok {
					bad[parts[1]] = m[4]
				}
			}
			if len(bad) == 0 {
				ev.Infra("C12 run binary does not build:\n%s", firstLines(out, 20))
			}
			var keep []*c12pkg
			for _, pk := range linked {
				if msg, isBad := bad[pk.name]; isBad {
					rep.Count("violations_output_does_not_build", 1)
					viol(pk, "accepted but the generated code does not build", msg)
				} else {
					keep = append(keep, pk)
				}
			}
			linked = keep
		}
		if len(linked) > 0 {
			b.Prog = &gen.Prog{}
			for _, pk := range linked {
				b.Prog.Files = append(b.Prog.Files, pk.prog.Files...)
			}
			res := b.Run(driver.Spec{Prop: "C12", Oracle: "refeq", Seed: j.Seed, Batch: bn, ArgVecs: 8, Samples: 1})
			for k, v := range res.Counters {
				rep.Count(k, v)
			}
			for _, s := range res.Samples {
				rep.Sample(s, 2)
			}
			badFn := map[string]driver.Mismatch{}
			for _, m := range res.Mismatches {
				badFn[m.Func] = m
			}
			for _, pk := range linked {
				var mm *driver.Mismatch
				for _, f := range pk.prog.AllFuncs() {
					if m, ok := badFn[f.Name]; ok {
						mm = &m
					}
				}
				switch {
				case mm != nil:
					rep.Count("violations_accepted_but_different", 1)
					if len(rep.Violations) < maxViolationsPerWorker {
						doc := &CReplay{Property: "C12", Layer: "C", Kind: "history", Oracle: "refeq", Seed: j.Seed, Batch: bn, Func: mm.Func, Pkg: pk.name,
							Files: filesOf(pk.prog), Scenario: mm.Sc, Class: mm.Class, Expected: mm.Expected, Observed: mm.Observed, DiffAt: mm.DiffAt, Stage: pk.inj.Kind}
						path := ev.WriteReplay("C12", int64(j.Seed), bn*1000+len(rep.Violations), doc)
						rep.Violations = append(rep.Violations, ev.Violation{Prop: "C12", Class: "accepted [" + pk.inj.Kind + "] but behaves differently: " + mm.Class, Replay: path})
					}
				case pk.inj.Control:
					rep.Count("controls_accepted", 1)
				default:
					rep.Count("accepted_and_equal_to_source", 1)
				}
			}
		}
		if bn == j.Batches[0] {
			pk := pkgs[0]
			rep.Sample(map[string]any{"injected": pk.inj.Kind, "negative_control": pk.inj.Control, "verdict": verdicts[pk.name], "source": pk.prog.RenderFunc(pk.prog.Find(pk.target), gen.Mode{})}, 3)
		}
		os.RemoveAll(dir)
	}
}

func diagClass(msg string) string {
	if i := strings.Index(msg, " in: "); i >= 0 {
		return msg[:i]
	}
	return msg
}

func sortedFileTexts(p *gen.Prog) []string {
	m := filesOf(p)
	ks := make([]string, 0, len(m))
	for k := range m {
		ks = append(ks, k)
	}
	sort.Strings(ks)
	var out []string
	for _, k := range ks {
		out = append(out, m[k])
	}
	return out
}
