package layerc

import (
	"encoding/json"
	"fmt"
	"os"
	"path/filepath"
	"strings"
	"time"

	"verif/sim/driver"
	"verif/sim/gen"
)

// Replay re-executes a stored compiled-program violation from its stored sources (nothing
// is re-rendered) against the current /repo, in a fresh process.
func Replay(id, path string) int {
	data, err := os.ReadFile(path)
	if err != nil {
		fmt.Fprintln(os.Stderr, "INFRASTRUCTURE-FAILURE:", err)
		return 2
	}
	var doc CReplay
	if err := json.Unmarshal(data, &doc); err != nil {
		fmt.Fprintln(os.Stderr, "INFRASTRUCTURE-FAILURE:", err)
		return 2
	}
	class, detail := Reevaluate(&doc)
	return verdict(&doc, path, class, detail)
}

func verdict(doc *CReplay, path, class, detail string) int {
	switch {
	case class == "":
		fmt.Printf("REPLAY-PASSED property=%s (the stored case no longer violates the property)\n", doc.Property)
		return 0
	case class != doc.Class:
		fmt.Printf("REPLAY-DIVERGED property=%s stored=%q now=%q\n", doc.Property, doc.Class, class)
		return 2
	}
	fmt.Printf("VIOLATION property=%s replay=%s\n  class: %s\n  %s\n", doc.Property, path, class, detail)
	return 1
}

// Reevaluate runs the stored case and returns the violation class it shows now ("" = none).
func Reevaluate(doc *CReplay) (class, detail string) {
	env := NewEnv()
	defer env.Close()
	_, loadTest := doc.Files["src/"+doc.Pkg+"/"+loadTestFile]
	b := env.NewBatch(&gen.Prog{Pkg: doc.Pkg, LoadTest: loadTest})
	b.WriteSources() // go.mod, go.sum, main.go
	for p, t := range doc.Files {
		if p == "function" {
			continue
		}
		writeFile(filepath.Join(b.Dir, p), t)
	}
	if out, err := b.run(5*time.Minute, b.Dir, "go", "build", "./src/..."); err != nil {
		return "stored source does not build against the stub API", firstLines(out, 10)
	}
	msg := b.compileOnce("src", "opt", false)
	if msg != "" {
		if doc.Kind == "inject" && !strings.HasPrefix(doc.Class, "negative control rejected") {
			return "", "" // rejected with a diagnostic: fine for an injected construct
		}
		if doc.Kind == "inject" {
			return doc.Class, msg
		}
		return "acceptance-gate compile-panic: " + firstLines(msg, 1), msg
	}
	if doc.Kind == "inject" && strings.HasPrefix(doc.Class, "accepted a program that has no source-level meaning") {
		return doc.Class, "still accepted"
	}
	if doc.Kind == "inject" && strings.HasPrefix(doc.Class, "negative control rejected") {
		return "", ""
	}
	needUnopt := doc.Oracle == "optunopt" || strings.Contains(doc.Stage, "unopt")
	if needUnopt {
		if msg := b.compileOnce("src", "st", true); msg != "" {
			return "hook failed: " + msg, msg
		}
		os.Rename(filepath.Join(b.Dir, "st_tmp"), filepath.Join(b.Dir, "unopt"))
		b.dropUnusedAPIImport(filepath.Join(b.Dir, "unopt", doc.Pkg))
	} else {
		b.run(time.Minute, b.Dir, "cp", "-r", "opt", "unopt")
	}
	if missing := b.copySkipped(); len(missing) > 0 {
		base := filepath.Base(missing[0])
		return "acceptance-gate build-" + strings.SplitN(missing[0], "/", 2)[0] + ": no generated file was written for " + base + " (it uses the API)", strings.Join(missing, " ")
	}
	out, err := b.run(10*time.Minute, b.Dir, "go", "build", "-gcflags=-e", "-o", "run", ".")
	if err != nil {
		m := errLine.FindStringSubmatch(out)
		if m == nil {
			return "build failed", firstLines(out, 10)
		}
		stage := "build-" + strings.SplitN(m[1], "/", 2)[0]
		if doc.Kind == "inject" {
			return "accepted but the generated code does not build", m[4]
		}
		return "acceptance-gate " + stage + ": " + m[4], firstLines(out, 10)
	}
	if doc.Kind == "gate" && doc.Stage == "side-effect-import" {
		if d := droppedBlankImports(b.Dir, doc.Pkg); len(d) > 0 {
			return fmt.Sprintf("acceptance-gate side-effect-import: side-effect import _ %q of %s is missing in the generated file (%s)", d[0].path, d[0].file, d[0].stage), ""
		}
		return "", ""
	}
	if doc.Kind == "dead" && doc.Spec != nil {
		res := b.Run(*doc.Spec)
		for _, m := range res.Mismatches {
			if m.Sc == nil {
				return m.Class, strings.Join(m.Observed, "\n  ")
			}
		}
		return "", ""
	}
	if doc.Kind == "gate" || doc.Scenario == nil {
		return "", ""
	}
	res := b.Run(driver.Spec{Prop: doc.Property, Oracle: doc.Oracle, Only: doc.Func, Replay: doc.Scenario})
	if len(res.Mismatches) == 0 {
		return "", ""
	}
	m := res.Mismatches[0]
	at := m.DiffAt
	get := func(h []string) string {
		if at >= 0 && at < len(h) {
			return h[at]
		}
		return "<end of history>"
	}
	return m.Class, fmt.Sprintf("expected[%d]: %s\n  observed[%d]: %s", at, get(m.Expected), at, get(m.Observed))
}
