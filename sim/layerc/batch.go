// Package layerc simulates compiled programs: seeded generator programs go through the
// real compiler (subprocess codrv), are linked with their reference rendering into one run
// binary, and the generic driver plays scenarios on all implementations.
package layerc

import (
	"bytes"
	"context"
	"encoding/json"
	"fmt"
	"go/ast"
	"go/parser"
	"go/token"
	"os"
	"os/exec"
	"path/filepath"
	"regexp"
	"sort"
	"strconv"
	"strings"
	"time"
	"verif/sim/core"

	"verif/sim/driver"
	"verif/sim/ev"
	"verif/sim/gen"
)

// Env is the per-worker environment: scratch root, tool paths.
type Env struct {
	Root   string // scratch root of this worker (outside /repo and /verif), removed on exit
	Codrv  string
	Repo   string
	SimDir string
	n      int
}

func NewEnv() *Env {
	repo := os.Getenv("VERIF_REPO")
	if repo == "" {
		repo = "/repo"
	}
	root, err := os.MkdirTemp("", "vsim-")
	if err != nil {
		ev.Infra("scratch: %v", err)
	}
	privateCache = core.PrivateGoCache(root)
	return &Env{Root: root, Codrv: filepath.Join(ev.Root(), "bin", "codrv"), Repo: repo, SimDir: filepath.Join(ev.Root(), "sim")}
}

// privateCache: the Go build cache of this worker process (see core.PrivateGoCache).
var privateCache string

func (e *Env) Close() {
	if os.Getenv("VSIM_KEEP") != "" {
		fmt.Fprintln(os.Stderr, "kept:", e.Root)
		return
	}
	os.RemoveAll(e.Root)
}

func goEnv() []string {
	env := os.Environ()
	if privateCache != "" {
		env = append(env, "GOCACHE="+privateCache)
	}
	return append(env, "GOFLAGS=-mod=mod", "GOPROXY=off", "GOSUMDB=off", "GOTOOLCHAIN=local")
}

type Batch struct {
	env  *Env
	Dir  string
	Prog *gen.Prog
	// acceptance gate results
	Gate []GateFailure
}

type GateFailure struct {
	Func   string
	Stage  string // compile-panic | build-opt | build-unopt
	Msg    string
	Source string
	Files  map[string]string // the function with everything it references, as files of a package
	Prog   *gen.Prog         // program the function was part of when it failed (for minimisation)
}

func (e *Env) NewBatch(p *gen.Prog) *Batch {
	e.n++
	dir := filepath.Join(e.Root, fmt.Sprintf("b%d", e.n))
	os.MkdirAll(dir, 0o755)
	return &Batch{env: e, Dir: dir, Prog: p}
}

func (b *Batch) Remove() {
	if os.Getenv("VSIM_KEEP") != "" { // debugging aid: keep the scratch trees
		return
	}
	os.RemoveAll(b.Dir)
}

func must(err error) {
	if err != nil {
		ev.Infra("%v", err)
	}
}

func writeFile(path, content string) {
	must(os.MkdirAll(filepath.Dir(path), 0o755))
	must(os.WriteFile(path, []byte(content), 0o644))
}

func (b *Batch) run(timeout time.Duration, dir string, name string, args ...string) (string, error) {
	ctx, cancel := context.WithTimeout(context.Background(), timeout)
	defer cancel()
	cmd := exec.CommandContext(ctx, name, args...)
	cmd.Dir = dir
	cmd.Env = goEnv()
	var out bytes.Buffer
	cmd.Stdout = &out
	cmd.Stderr = &out
	err := cmd.Run()
	if ctx.Err() != nil {
		return out.String(), fmt.Errorf("timeout after %v: %s %v", timeout, name, args)
	}
	return out.String(), err
}

// WriteSources writes go.mod, the go-co source package and the reference package.
func (b *Batch) WriteSources() {
	p := b.Prog
	mod := fmt.Sprintf("module scratch\n\ngo 1.23\n\nrequire (\n\tgithub.com/goghcrow/go-co v0.0.0\n\tverif/sim v0.0.0\n)\n\nreplace github.com/goghcrow/go-co => %s\n\nreplace verif/sim => %s\n", b.env.Repo, b.env.SimDir)
	writeFile(filepath.Join(b.Dir, "go.mod"), mod)
	sum, err := os.ReadFile(filepath.Join(b.env.SimDir, "go.sum"))
	must(err)
	writeFile(filepath.Join(b.Dir, "go.sum"), string(sum))
	for _, d := range []string{"src", "ref", "opt", "unopt", "st", "st_tmp", "opt_tmp"} {
		os.RemoveAll(filepath.Join(b.Dir, d))
	}
	for _, f := range p.Files {
		if len(f.Funcs) == 0 && len(f.Decls) == 0 {
			continue
		}
		writeFile(filepath.Join(b.Dir, "src", p.Pkg, f.Name), p.RenderFile(f, gen.Mode{}))
		writeFile(filepath.Join(b.Dir, "ref", p.Pkg, f.Name), p.RenderFile(f, gen.Mode{Ref: true}))
	}
	if p.LoadTest {
		// loader option WithLoadTest: the package is then loaded as p and p [p.test], and the
		// two variants share the syntax trees of the non-test files
		writeFile(filepath.Join(b.Dir, "src", p.Pkg, loadTestFile), loadTestSource(p.Pkg))
	}
	if len(p.Files) > 0 {
		reg := p.RenderReg()
		writeFile(filepath.Join(b.Dir, "src", p.Pkg, "reg.go"), reg)
		writeFile(filepath.Join(b.Dir, "ref", p.Pkg, "reg.go"), reg)
	}
	main := fmt.Sprintf("package main\n\nimport (\n\topt \"scratch/opt/%[1]s\"\n\tref \"scratch/ref/%[1]s\"\n\tunopt \"scratch/unopt/%[1]s\"\n\t\"verif/sim/driver\"\n)\n\nfunc main() { driver.Main(ref.Entries, opt.Entries, unopt.Entries) }\n", p.Pkg)
	writeFile(filepath.Join(b.Dir, "main.go"), main)
}

// SourceGate: the generated source must build against the stub API and the reference must
// build too; a failure here is a defect of the generator (exit 2), never a violation.
func (b *Batch) SourceGate() {
	out, err := b.run(5*time.Minute, b.Dir, "go", "build", "./src/...", "./ref/...")
	if err != nil {
		keep := filepath.Join(os.TempDir(), "vsim-generator-bug")
		os.RemoveAll(keep)
		exec.Command("cp", "-r", b.Dir, keep).Run()
		ev.Infra("generator emitted a program that does not build (kept in %s):\n%s", keep, firstLines(out, 30))
	}
}

func firstLines(s string, n int) string {
	l := strings.Split(s, "\n")
	if len(l) > n {
		l = l[:n]
	}
	return strings.Join(l, "\n")
}

// compileOnce runs the production Compile into opt/ and the hook into st/ (+st_tmp).
// Returns the panic message ("" on success).
func (b *Batch) compileOnce(src, dst string, stages bool) string {
	mode := "compile"
	if stages {
		mode = "stages"
	}
	args := []string{mode, src, dst}
	if b.Prog.LoadTest {
		args = append(args, "loadtest")
	}
	out, err := b.run(5*time.Minute, b.Dir, b.env.Codrv, args...)
	if err == nil {
		return ""
	}
	if i := strings.Index(out, "COMPILE-PANIC: "); i >= 0 {
		return strings.TrimSpace(firstLines(out[i+len("COMPILE-PANIC: "):], 6))
	}
	if strings.HasPrefix(err.Error(), "timeout") {
		return "compiler did not terminate: " + err.Error()
	}
	return "compiler exited abnormally: " + err.Error() + ": " + firstLines(out, 6)
}

var errLine = regexp.MustCompile(`(?m)^(?:\./)?((?:opt|unopt|ref|src)/[^:\s]+\.go):(\d+):(\d+): (.*)$`)

// funcAt maps file:line of generated output to the enclosing top-level function.
func funcAt(path string, line int) string {
	fset := token.NewFileSet()
	f, err := parser.ParseFile(fset, path, nil, parser.SkipObjectResolution)
	if err != nil {
		return ""
	}
	for _, d := range f.Decls {
		if fd, ok := d.(*ast.FuncDecl); ok {
			if fset.Position(fd.Pos()).Line <= line && line <= fset.Position(fd.End()).Line {
				return fd.Name.Name
			}
		}
	}
	return ""
}

// Compile runs the real compiler with the acceptance gate. Functions on which the compiler
// panics or whose output does not build are isolated, recorded in b.Gate and removed from
// the batch (with everything that references them); the remaining batch is compiled again.
// Returns false if nothing is left.
func (b *Batch) Compile(needUnopt bool) bool {
	for round := 0; round < 12; round++ {
		if b.Prog.NumFuncs() == 0 {
			return false
		}
		b.WriteSources()
		if round > 0 {
			b.SourceGate()
		}
		msg := b.compileOnce("src", "opt", false)
		if msg != "" {
			if file := b.templateCulprit(); file != "" {
				// the compiler fails on a hand-written template file: every function subset
				// contains it, so it is found by leaving the template files out one at a time
				fn := b.Prog.ExternOf(file)
				b.Gate = append(b.Gate, GateFailure{Func: fn, Stage: "compile-panic", Msg: msg, Files: filesOf(b.Prog)})
				b.Prog.DropRaw(file)
				continue
			}
			culprit := b.bisectPanic(msg)
			if culprit == nil {
				ev.Infra("compiler fails on the batch but on no single function: %s", msg)
			}
			b.Gate = append(b.Gate, GateFailure{Func: culprit.Name, Stage: "compile-panic", Msg: b.singleMsg(culprit), Source: b.Prog.RenderFunc(culprit, gen.Mode{}),
				Files: filesOf(b.Prog.Subset(b.Prog.Closure(culprit.Name))), Prog: b.Prog.Subset(b.Prog.Closure(culprit.Name))})
			b.Prog.Remove(culprit.Name)
			continue
		}
		if needUnopt {
			if msg := b.compileOnce("src", "st", true); msg != "" {
				ev.Infra("hook CompileStages failed where Compile succeeded: %s", msg)
			}
			b.crossCheck()
			must(os.Rename(filepath.Join(b.Dir, "st_tmp"), filepath.Join(b.Dir, "unopt")))
			b.dropUnusedAPIImport(filepath.Join(b.Dir, "unopt", b.Prog.Pkg))
			os.RemoveAll(filepath.Join(b.Dir, "st"))
		} else {
			// link the optimised build twice; unopt is not part of this check's verdict
			exec.Command("cp", "-r", filepath.Join(b.Dir, "opt"), filepath.Join(b.Dir, "unopt")).Run()
		}
		if missing := b.copySkipped(); len(missing) > 0 {
			// the compiler wrote no generated file for a file that uses the API
			dropped := map[string]bool{}
			for _, m := range missing {
				base := filepath.Base(m)
				if dropped[base] {
					continue
				}
				dropped[base] = true
				var names []string
				for _, f := range b.Prog.Files {
					if f.Name == base {
						for _, fn := range f.Funcs {
							names = append(names, fn.Name)
						}
						for _, fn := range f.Extern {
							names = append(names, fn.Name)
						}
					}
				}
				if len(names) == 0 {
					ev.Infra("generated file missing for %s, which holds no function of the batch", m)
				}
				g := GateFailure{Func: names[0], Stage: "build-" + strings.SplitN(m, "/", 2)[0], Msg: "no generated file was written for " + base + " (it uses the API)",
					Files: filesOf(b.Prog), Prog: nil}
				if f := b.Prog.Find(names[0]); f != nil {
					g.Source = b.Prog.RenderFunc(f, gen.Mode{})
				}
				b.Gate = append(b.Gate, g)
				for _, n := range names {
					b.Prog.Remove(n)
				}
			}
			continue
		}
		out, err := b.run(10*time.Minute, b.Dir, "go", "build", "-gcflags=-e", "-o", "run", ".")
		if err == nil {
			// side-effect imports of the source files must still be there (their effect, the
			// initialisation of the imported package, cannot be observed inside one binary
			// that also links the reference package: the import spec itself is compared)
			for _, d := range droppedBlankImports(b.Dir, b.Prog.Pkg) {
				fn := b.Prog.ExternOf(d.file)
				for _, f := range b.Prog.Files {
					if f.Name == d.file && len(f.Funcs) > 0 {
						fn = f.Funcs[0].Name
					}
				}
				b.Gate = append(b.Gate, GateFailure{Func: fn, Stage: "side-effect-import", Files: filesOf(b.Prog),
					Msg: fmt.Sprintf("side-effect import _ %q of %s is missing in the generated file (%s)", d.path, d.file, d.stage)})
			}
			return true
		}
		culprits := map[string]GateFailure{}
		for _, m := range errLine.FindAllStringSubmatch(out, -1) {
			stage := "build-" + strings.SplitN(m[1], "/", 2)[0]
			if stage == "build-ref" || stage == "build-src" {
				ev.Infra("reference/source does not build:\n%s", firstLines(out, 20))
			}
			line, _ := strconv.Atoi(m[2])
			fn := funcAt(filepath.Join(b.Dir, m[1]), line)
			if fn == "" || b.Prog.Find(fn) == nil {
				// not a generated function: a raw-declaration (template) file
				base := filepath.Base(m[1])
				if ext := b.Prog.ExternOf(base); ext != "" {
					fn = ext
				} else {
					ev.Infra("build error outside any generated function:\n%s", firstLines(out, 20))
				}
			}
			if _, ok := culprits[fn]; !ok {
				culprits[fn] = GateFailure{Func: fn, Stage: stage, Msg: m[4]}
			}
		}
		if len(culprits) == 0 {
			ev.Infra("go build of the run binary failed without a positioned error:\n%s", firstLines(out, 30))
		}
		names := make([]string, 0, len(culprits))
		for n := range culprits {
			names = append(names, n)
		}
		sort.Strings(names)
		for _, n := range names {
			g := culprits[n]
			if f := b.Prog.Find(n); f != nil {
				g.Source = b.Prog.RenderFunc(f, gen.Mode{})
				g.Files = filesOf(b.Prog.Subset(b.Prog.Closure(n)))
				g.Prog = b.Prog.Subset(b.Prog.Closure(n))
			}
			b.Gate = append(b.Gate, g)
			b.Prog.Remove(n)
		}
	}
	ev.Infra("acceptance gate did not converge")
	return false
}

// copySkipped copies the files of the source package that the compiler did not emit (files
// that do not use the API: the registry, helper declarations) next to the outputs.
// A file that DOES import the API and is missing from an output directory is reported: the
// compiler owes a generated file for it (copying the source would link the no-op stubs).
func (b *Batch) copySkipped() (missing []string) {
	srcDir := filepath.Join(b.Dir, "src", b.Prog.Pkg)
	ents, err := os.ReadDir(srcDir)
	must(err)
	for _, e := range ents {
		if strings.HasSuffix(e.Name(), "_test.go") {
			continue
		}
		data, err := os.ReadFile(filepath.Join(srcDir, e.Name()))
		must(err)
		usesAPI := strings.Contains(string(data), "\"github.com/goghcrow/go-co\"")
		for _, out := range []string{"opt", "unopt"} {
			dst := filepath.Join(b.Dir, out, b.Prog.Pkg, e.Name())
			if _, err := os.Stat(dst); err != nil {
				if usesAPI {
					missing = append(missing, out+"/"+e.Name())
					continue
				}
				writeFile(dst, string(data))
			}
		}
	}
	return
}

// dropUnusedAPIImport makes the intermediate stage buildable: the rewrite stage leaves the
// (now unused) import of the API package in place, removing it is the job of the optimise
// stage's import clean-up. Only that one import is touched, and only when the file no
// longer refers to the package.
func (b *Batch) dropUnusedAPIImport(dir string) {
	ents, err := os.ReadDir(dir)
	must(err)
	const path = `"github.com/goghcrow/go-co"`
	for _, e := range ents {
		if !strings.HasSuffix(e.Name(), ".go") {
			continue
		}
		file := filepath.Join(dir, e.Name())
		data, err := os.ReadFile(file)
		must(err)
		lines := strings.Split(string(data), "\n")
		for i, l := range lines {
			t := strings.TrimSpace(l)
			if !strings.HasSuffix(t, path) {
				continue
			}
			name := strings.TrimSpace(strings.TrimSuffix(strings.TrimPrefix(t, "import"), path))
			if name == "" {
				name = "co"
			}
			rest := strings.Join(append(append([]string{}, lines[:i]...), lines[i+1:]...), "\n")
			used := usesPkgName(rest, name)
			if !used {
				if strings.HasPrefix(t, "import") {
					lines[i] = ""
				} else {
					lines = append(lines[:i], lines[i+1:]...)
				}
				must(os.WriteFile(file, []byte(strings.Join(lines, "\n")), 0o644))
			}
			break
		}
	}
}

func usesPkgName(src, name string) bool {
	f, err := parser.ParseFile(token.NewFileSet(), "x.go", src, parser.SkipObjectResolution)
	if err != nil {
		return true
	}
	used := false
	var visit func(n ast.Node) bool
	walk := func(n ast.Node) {
		if n != nil {
			ast.Inspect(n, visit)
		}
	}
	visit = func(n ast.Node) bool {
		switch n := n.(type) {
		case *ast.Field:
			// field and parameter NAMES are declarations, not uses
			walk(n.Type)
			return false
		case *ast.KeyValueExpr:
			if _, ok := n.Key.(*ast.Ident); !ok {
				walk(n.Key)
			}
			walk(n.Value)
			return false
		case *ast.FuncDecl:
			if n.Recv != nil {
				walk(n.Recv)
			}
			walk(n.Type)
			if n.Body != nil {
				walk(n.Body)
			}
			return false
		case *ast.SelectorExpr:
			if id, ok := n.X.(*ast.Ident); ok && id.Name == name {
				used = true
			}
			if name == "." {
				return false // x.Yield is not the API's Yield
			}
		case *ast.Ident:
			if name == "." && (n.Name == "Yield" || n.Name == "YieldFrom" || n.Name == "Iter") {
				used = true
			}
		}
		return !used
	}
	ast.Inspect(f, visit)
	return used
}

// crossCheck: the hook's optimised output must be byte-identical to production Compile's.
func (b *Batch) crossCheck() {
	out, err := b.run(time.Minute, b.Dir, "diff", "-r", "opt", "st")
	if err != nil {
		ev.Infra("hook CompileStages output differs from Compile output:\n%s", firstLines(out, 20))
	}
}

// subset compile in a side directory; returns panic message.
func (b *Batch) compileSubset(keep map[string]bool) string {
	sub := b.Prog.Subset(keep)
	side := &Batch{env: b.env, Dir: filepath.Join(b.Dir, "bis"), Prog: sub}
	os.RemoveAll(side.Dir)
	side.WriteSources()
	msg := side.compileOnce("src", "opt", false)
	os.RemoveAll(side.Dir)
	return msg
}

// templateCulprit: when the compiler fails even without any generated function, the name of
// a template file whose removal (together with its plain companion) makes it succeed.
func (b *Batch) templateCulprit() string {
	if b.compileSubset(map[string]bool{}) == "" {
		return ""
	}
	all := map[string]bool{}
	for _, f := range b.Prog.AllFuncs() {
		all[f.Name] = true
	}
	for _, f := range b.Prog.Files {
		if len(f.Extern) == 0 {
			continue
		}
		sub := b.Prog.Subset(all) // (with the generated functions: something must use the API)
		sub.DropRaw(f.Name)
		side := &Batch{env: b.env, Dir: filepath.Join(b.Dir, "bis"), Prog: sub}
		os.RemoveAll(side.Dir)
		side.WriteSources()
		msg := side.compileOnce("src", "opt", false)
		os.RemoveAll(side.Dir)
		if msg == "" {
			return f.Name
		}
	}
	return ""
}

func (b *Batch) singleMsg(f *gen.Func) string {
	return b.compileSubset(b.Prog.Closure(f.Name))
}

// bisectPanic finds one function whose presence makes the compiler panic.
func (b *Batch) bisectPanic(msg string) *gen.Func {
	funcs := b.Prog.AllFuncs()
	// try each function together with what it needs, smallest closures first; bisection over
	// halves first to keep the number of compiler runs logarithmic
	cand := funcs
	for len(cand) > 1 {
		half := cand[:len(cand)/2]
		keep := map[string]bool{}
		for _, f := range half {
			for n := range b.Prog.Closure(f.Name) {
				keep[n] = true
			}
		}
		if b.compileSubset(keep) != "" {
			cand = half
		} else {
			cand = cand[len(cand)/2:]
		}
	}
	if len(cand) == 1 && b.compileSubset(b.Prog.Closure(cand[0].Name)) != "" {
		return cand[0]
	}
	// fall back: linear scan
	for _, f := range funcs {
		if b.compileSubset(b.Prog.Closure(f.Name)) != "" {
			return f
		}
	}
	return nil
}

// Run executes the batch binary with a spec and decodes its result.
// Run plays the batch. A function whose generated code brings the run binary down (an
// advance that never returns: liveness watchdog of the driver; a fatal runtime error such as
// a stack overflow or "all goroutines are asleep") is reported as a mismatch of that
// function without a scenario, and the binary is run again without it.
func (b *Batch) Run(sp driver.Spec) *driver.Result {
	var dead []driver.Mismatch
	for round := 0; ; round++ {
		res, d := b.runWith(sp, 20*time.Minute, true)
		if d == nil {
			res.Mismatches = append(res.Mismatches, dead...)
			return res
		}
		dead = append(dead, *d)
		if round == 3 || sp.Only != "" || sp.Replay != nil {
			return &driver.Result{Mismatches: dead, Counters: map[string]int{"batches_abandoned_after_repeated_process_death": 1}}
		}
		sp.Skip = append(sp.Skip, d.Func)
	}
}

var funcLine = regexp.MustCompile(`(?m)^VSIM-FUNC (\S+)$`)
var hangLine = regexp.MustCompile(`(?m)^VSIM-HANG func=(\S*) impl=(\S*) limit=(\S+)$`)

// deathOf classifies the stderr of a run binary that did not finish: the function under
// play, what happened, and whether the code under test (generated packages, seq runtime)
// is what was running. Anything else is the harness's own trouble.
func deathOf(stderr string) (fn, class string, sut bool) {
	if m := hangLine.FindStringSubmatch(stderr); m != nil {
		return m[1], "liveness: a play of the generated code does not come back (no effect point, no return; the reference completes)", m[2] == "opt" || m[2] == "unopt"
	}
	at := strings.Index(stderr, "fatal error: ")
	if at < 0 {
		return "", "", false
	}
	if ms := funcLine.FindAllStringSubmatch(stderr[:at], -1); len(ms) > 0 {
		fn = ms[len(ms)-1][1]
	}
	tail := stderr[at:]
	sut = strings.Contains(tail, "go-co/seq.") || strings.Contains(tail, "scratch/opt/") || strings.Contains(tail, "scratch/unopt/")
	return fn, "the generated code brought the process down: " + firstLines(tail, 1), sut
}

func (b *Batch) runWith(sp driver.Spec, timeout time.Duration, strict bool) (*driver.Result, *driver.Mismatch) {
	sp.Digest = map[string]uint64{}
	for _, f := range b.Prog.AllFuncs() {
		sp.Digest[f.Name] = gen.Digest(b.Prog.RenderFunc(f, gen.Mode{}))
	}
	js, _ := json.Marshal(sp)
	specPath := filepath.Join(b.Dir, "spec.json")
	must(os.WriteFile(specPath, js, 0o644))
	ctx, cancel := context.WithTimeout(context.Background(), timeout)
	defer cancel()
	cmd := exec.CommandContext(ctx, filepath.Join(b.Dir, "run"), specPath)
	var stderr bytes.Buffer
	cmd.Stderr = &stderr
	out, err := cmd.Output()
	if err != nil {
		if !strict {
			return nil, nil
		}
		if fn, class, sut := deathOf(stderr.String()); sut && fn != "" {
			return nil, &driver.Mismatch{Func: fn, Oracle: sp.Oracle, Class: class, DiffAt: -1, Observed: strings.Split(firstLines(lastPart(stderr.String()), 60), "\n")}
		}
		ev.Infra("batch run binary failed: %v\n%s", err, firstLines(lastPart(stderr.String()), 40))
	}
	var res driver.Result
	if err := json.Unmarshal(out, &res); err != nil {
		if !strict {
			return nil, nil
		}
		ev.Infra("batch run binary printed no result: %v\n%s", err, firstLines(string(out), 10))
	}
	return &res, nil
}

type droppedImport struct{ file, path, stage string }

// droppedBlankImports compares the blank imports of every source file with those of the
// generated files (optimised and unoptimised stage) of the same name.
func droppedBlankImports(dir, pkg string) (out []droppedImport) {
	blank := func(path string) map[string]bool {
		f, err := parser.ParseFile(token.NewFileSet(), path, nil, parser.ImportsOnly)
		if err != nil {
			return nil
		}
		m := map[string]bool{}
		for _, im := range f.Imports {
			if im.Name != nil && im.Name.Name == "_" {
				p, _ := strconv.Unquote(im.Path.Value)
				m[p] = true
			}
		}
		return m
	}
	ents, _ := os.ReadDir(filepath.Join(dir, "src", pkg))
	for _, e := range ents {
		want := blank(filepath.Join(dir, "src", pkg, e.Name()))
		for _, stage := range []string{"opt", "unopt"} {
			gen := filepath.Join(dir, stage, pkg, e.Name())
			if _, err := os.Stat(gen); err != nil {
				continue
			}
			have := blank(gen)
			paths := make([]string, 0, len(want))
			for p := range want {
				paths = append(paths, p)
			}
			sort.Strings(paths)
			for _, p := range paths {
				if !have[p] && p != "github.com/goghcrow/go-co" {
					out = append(out, droppedImport{e.Name(), p, stage})
					break
				}
			}
		}
	}
	return
}

// lastPart drops the progress lines in front of what a dying run binary printed.
func lastPart(stderr string) string {
	for _, mark := range []string{"VSIM-HANG", "fatal error: ", "panic: "} {
		if at := strings.Index(stderr, mark); at >= 0 {
			return stderr[at:]
		}
	}
	return funcLine.ReplaceAllString(stderr, "")
}

// the in-package test file that uses the API, present in batches compiled with test packages loaded
const loadTestFile = "zz_api_test.go"

func loadTestSource(pkg string) string {
	return "package " + pkg + `

import (
	"testing"

	. "github.com/goghcrow/go-co"
)

func zzTestGen(n int) Iter[int] {
	for i := 0; i < n; i++ {
		Yield(i)
	}
	return nil
}

func TestZZ(t *testing.T) {
	s := 0
	for v := range zzTestGen(3) {
		s += v
	}
	if s != 3 {
		t.Fatal(s)
	}
}
`
}
