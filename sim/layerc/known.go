package layerc

import (
	"encoding/json"
	"fmt"
	"os"
	"path/filepath"
	"strings"

	"verif/sim/core"
	"verif/sim/driver"
	"verif/sim/ev"
	"verif/sim/gen"
)

// Known findings: genuine defects of the repository that are recorded, not repaired. Each
// has a pinned case under /verif/known (sources, schedule, the recorded wrong history).
// A check re-runs the pinned cases of its property on every run:
//   - still fails the recorded way  -> "KNOWN-FINDING: property=<id> <what fails>", exit code unaffected
//   - behaves correctly now         -> nothing is printed
//   - fails in a DIFFERENT way      -> a new VIOLATION
// The trigger shape of each finding is excluded from random generation by a predicate in
// sim/gen/quarantine.go. known_findings.txt is never written at run time.

type knownLine struct {
	prop, key, file, what string
}

// LoadKnown returns the recorded findings of a property (key, pinned case file, text).
func LoadKnown(prop string) (keys, files, whats []string) {
	for _, k := range loadKnown(prop) {
		keys, files, whats = append(keys, k.key), append(files, k.file), append(whats, k.what)
	}
	return
}

func loadKnown(prop string) []knownLine {
	data, err := os.ReadFile(filepath.Join(ev.Root(), "known_findings.txt"))
	if err != nil {
		return nil
	}
	var out []knownLine
	for _, l := range strings.Split(string(data), "\n") {
		if !strings.HasPrefix(l, "finding: ") {
			continue
		}
		f := strings.Fields(l)
		k := knownLine{}
		rest := []string{}
		for _, w := range f[1:] {
			switch {
			case strings.HasPrefix(w, "property=") && k.prop == "":
				k.prop = strings.TrimPrefix(w, "property=")
			case strings.HasPrefix(w, "key=") && k.key == "":
				k.key = strings.TrimPrefix(w, "key=")
			case strings.HasPrefix(w, "case=") && k.file == "":
				k.file = strings.TrimPrefix(w, "case=")
			default:
				rest = append(rest, w)
			}
		}
		k.what = strings.Join(rest, " ")
		if k.prop == prop {
			out = append(out, k)
		}
	}
	return out
}

// RunKnown re-evaluates the pinned cases of a property (called by batch 0 of its check).
func RunKnown(j *core.Job, prop string) {
	for _, k := range loadKnown(prop) {
		data, err := os.ReadFile(filepath.Join(ev.Root(), k.file))
		if err != nil {
			ev.Infra("known finding %s: %v", k.key, err)
		}
		var doc CReplay
		if err := json.Unmarshal(data, &doc); err != nil {
			ev.Infra("known finding %s: %v", k.key, err)
		}
		class, detail := Reevaluate(&doc)
		j.Rep.Count("known_findings_pinned_cases_run", 1)
		switch {
		case class == "":
			j.Rep.Notes = append(j.Rep.Notes, "known finding "+k.key+" no longer reproduces (behaves like the source now)")
		case gateStage(class) == gateStage(doc.Class):
			j.Rep.Known = append(j.Rep.Known, "key="+k.key+" "+k.what)
		default:
			path := ev.WriteReplay(prop, int64(j.Seed), 900000+len(j.Rep.Violations), &doc)
			j.Rep.Violations = append(j.Rep.Violations, ev.Violation{Prop: prop, Class: "pinned case " + k.key + " fails differently than recorded: " + class + " / " + detail, Replay: path})
		}
	}
}

// ---- pinned programs, as IR (so both renderings come from the same tree) ----------------

func y(e *gen.X) *gen.S            { return &gen.S{K: gen.SYield, E: e} }
func lit(n int) *gen.X             { return &gen.X{K: gen.XLit, Lit: n} }
func va(n string) *gen.X           { return &gen.X{K: gen.XVar, Name: n} }
func bin(a *gen.X, op string, b *gen.X) *gen.X { return &gen.X{K: gen.XBin, A: a, Op: op, B: b} }

// pinnedRaw: pinned cases written as raw declarations (shapes the IR cannot express).
type rawPinned struct {
	prop, what string
	src, ref   []string
	f          *gen.Func
}

func pinnedRaw() map[string]rawPinned {
	return map[string]rawPinned{
		// B1: a local variable named like the element type shadows it inside the generated thunks
		"B1-element-type-name-shadowed-by-local": {
			prop: "C03",
			what: "a local variable of a generator named like (an identifier of) its element type: the generated code writes the element type as an explicit type argument (seq.Bind[*knode]) inside the scope of that variable, so it does not build (\"knode is not a type\"); source: func K7(root *knode) Iter[*knode] { for knode := root; knode != nil; knode = knode.next { Yield(knode) }; return nil }",
			src: []string{"type knode struct {\n\tv    int\n\tnext *knode\n}\n\nfunc K7(n int) «Iter[*knode]» {\n\troot := &knode{v: n, next: &knode{v: n + 1}}\n\tfor knode := root; knode != nil; knode = knode.next {\n\t\t«Yield»(knode)\n\t}\n\treturn nil\n}\n"},
			ref: []string{"type knode struct {\n\tv    int\n\tnext *knode\n}\n\nfunc K7(n int) «Iter[*knode]» {\n\treturn refco.Go(func(ʏ *refco.Y[*knode]) {\n\t\troot := &knode{v: n, next: &knode{v: n + 1}}\n\t\tfor knode := root; knode != nil; knode = knode.next {\n\t\t\tʏ.Yield(knode)\n\t\t}\n\t})\n}\n"},
			f:   &gen.Func{Name: "K7", Gen: true, Elem: "*knode", Params: []string{"n"}, Args: [][]int{{1}}},
		},
	}
}

func pinned() map[string]struct {
	prop, what string
	f          *gen.Func
} {
	ret := &gen.S{K: gen.SReturn, Nil: true}
	inc := func(n string) *gen.S { return &gen.S{K: gen.SIncDec, Name: n, Op: "++"} }
	forI := func(n int, post *gen.S, body ...*gen.S) *gen.S {
		return &gen.S{K: gen.SFor, Init: &gen.S{K: gen.SDecl, Name: "i", E: lit(0)}, E: bin(va("i"), "<", lit(n)), Post: post, Body: body}
	}
	out := map[string]struct {
		prop, what string
		f          *gen.Func
	}{}
	// A1: break after a yield inside a switch case leaves the enclosing loop
	out["A1-break-after-yield-in-switch"] = struct {
		prop, what string
		f          *gen.Func
	}{"C01", "break that follows a Yield inside a switch case (so it sits in a continuation thunk) is emitted as seq.Break: it leaves the enclosing loop / ends the generator instead of leaving the switch (expected 0 100 1 101 12 102, observed 0 100 1)",
		&gen.Func{Name: "K1", Gen: true, Elem: "int", Body: []*gen.S{
			forI(3, inc("i"),
				&gen.S{K: gen.SSwitch, E: va("i"), Cases: []*gen.Case{
					{Vals: []*gen.X{lit(1)}, Body: []*gen.S{y(va("i")), {K: gen.SBreak}}},
					{Default: true, Body: []*gen.S{y(bin(va("i"), "*", lit(6)))}},
				}},
				y(bin(va("i"), "+", lit(100)))),
			ret}}}
	// A2: continue skips a yielding post statement
	out["A2-continue-with-yielding-post"] = struct {
		prop, what string
		f          *gen.Func
	}{"C01", "continue in a for loop whose post statement yields skips the post statement (Combine drops its second half on the continue signal): expected 1 -1 -2 3 -3 -4, observed 1 -1 3 -3",
		&gen.Func{Name: "K2", Gen: true, Elem: "int", Body: []*gen.S{
			{K: gen.SDecl, Name: "n", E: lit(0), NoUse: true},
			{K: gen.SFor, E: bin(va("n"), "<", lit(4)), Init: &gen.S{K: gen.SEff, Tag: 1}, Post: y(bin(lit(0), "-", va("n"))), Body: []*gen.S{
				inc("n"),
				{K: gen.SIf, E: bin(bin(va("n"), "%", lit(2)), "==", lit(0)), Body: []*gen.S{{K: gen.SContinue}}},
				y(va("n")),
				y(bin(lit(0), "-", va("n"))),
			}},
			ret}}}
	// A6: range over an array does not copy the array
	out["A6-array-range-not-copied"] = struct {
		prop, what string
		f          *gen.Func
	}{"C04", "range over an array VALUE with a value variable must iterate over a copy; the generated code ranges over arr[:] and sees writes made to the array in the loop body (expected 1 2 3, observed 1 2 42)",
		&gen.Func{Name: "K6", Gen: true, Elem: "int", Body: []*gen.S{
			{K: gen.SDecl, Name: "arr", E: &gen.X{K: gen.XRaw, S: "[3]int{1, 2, 3}"}, NoUse: true},
			{K: gen.SRange, Name: "_", Name2: "v", Op: ":=", E: va("arr"), Body: []*gen.S{
				{K: gen.SRaw, Src: "arr[2] = 42"},
				y(va("v")),
			}},
			ret}}}
	return out
}

// MakeKnown (re)creates the pinned case files under /verif/known from the IR above and
// prints the finding lines for known_findings.txt. Run by hand: vsim mkknown.
func MakeKnown() {
	env := NewEnv()
	defer env.Close()
	keys := []string{}
	for k := range pinned() {
		keys = append(keys, k)
	}
	sortS(keys)
	for _, key := range keys {
		p := pinned()[key]
		prog := &gen.Prog{Pkg: "p", Import: "dot", Files: []*gen.File{{Name: "known.go", UsesAPI: true, Funcs: []*gen.Func{p.f}}}}
		b := env.NewBatch(prog)
		b.WriteSources()
		b.SourceGate()
		if !b.Compile(false) {
			fmt.Printf("%s: rejected by the acceptance gate: %+v\n", key, b.Gate)
			continue
		}
		res := b.Run(driver.Spec{Prop: p.prop, Oracle: "values", Seed: 1, ArgVecs: 1})
		if len(res.Mismatches) == 0 {
			fmt.Printf("%s: does not reproduce (no mismatch)\n", key)
			continue
		}
		m := res.Mismatches[0]
		doc := &CReplay{Property: p.prop, Layer: "C", Kind: "history", Oracle: m.Oracle, Func: m.Func, Files: filesOf(prog), Pkg: "p",
			Scenario: m.Sc, Class: m.Class, Expected: m.Expected, Observed: m.Observed, DiffAt: m.DiffAt, IR: p.f}
		data, _ := json.MarshalIndent(doc, "", " ")
		file := filepath.Join("known", key+".json")
		os.MkdirAll(filepath.Join(ev.Root(), "known"), 0o755)
		must(os.WriteFile(filepath.Join(ev.Root(), file), data, 0o644))
		fmt.Printf("finding: property=%s key=%s case=%s %s\n", p.prop, key, file, p.what)
	}
	makeKnownRaw(env)
}

// makeKnownRaw pins the raw cases: for these the recorded failure is an acceptance-gate failure.
func makeKnownRaw(env *Env) {
	keys := []string{}
	for k := range pinnedRaw() {
		keys = append(keys, k)
	}
	sortS(keys)
	for _, key := range keys {
		p := pinnedRaw()[key]
		prog := &gen.Prog{Pkg: "p", Import: "dot", Files: []*gen.File{{Name: "known.go", UsesAPI: true, Decls: p.src, RefDecls: p.ref, Extern: []*gen.Func{p.f}}}}
		files := filesOf(prog) // (the acceptance gate removes the culprit from the program)
		b := env.NewBatch(prog)
		b.WriteSources()
		b.SourceGate()
		b.Compile(false)
		if len(b.Gate) == 0 {
			fmt.Printf("%s: does not reproduce (accepted and builds)\n", key)
			continue
		}
		g := b.Gate[0]
		doc := &CReplay{Property: p.prop, Layer: "C", Kind: "gate", Func: p.f.Name, Stage: g.Stage, Msg: g.Msg,
			Class: "acceptance-gate " + g.Stage + ": " + firstLines(g.Msg, 1), Pkg: "p", Files: files}
		data, _ := json.MarshalIndent(doc, "", " ")
		file := filepath.Join("known", key+".json")
		must(os.WriteFile(filepath.Join(ev.Root(), file), data, 0o644))
		fmt.Printf("finding: property=%s key=%s case=%s %s\n", p.prop, key, file, p.what)
	}
}

func sortS(a []string) {
	for i := 1; i < len(a); i++ {
		for j := i; j > 0 && a[j] < a[j-1]; j-- {
			a[j], a[j-1] = a[j-1], a[j]
		}
	}
}

// gateStage: when a check does not need the unoptimised stage, unopt/ is a copy of opt/ and
// the compiler reports the same error for whichever it builds first.
func gateStage(class string) string {
	return strings.Replace(class, "acceptance-gate build-unopt:", "acceptance-gate build-opt:", 1)
}
