package layerc

import (
	"fmt"
	"os"
	"path/filepath"
	"sort"
	"strings"
	"time"

	"verif/sim/driver"
	"verif/sim/ev"
	"verif/sim/gen"
)

// Shrink minimises the program of a violation by delta debugging over the IR. All one-step
// reductions of a round are emitted as separate packages of ONE scratch module, so a round
// costs one compiler run and one link. A candidate is accepted if the stored scenario still
// shows the same violation class on it. Bounded by rounds and wall-clock.
func (env *Env) Shrink(prog *gen.Prog, doc *CReplay, budget time.Duration) {
	deadline := time.Now().Add(budget)
	target := prog.Find(doc.Func)
	if target == nil || len(target.Body) == 0 {
		return
	}
	cur := prog.Subset(prog.Closure(doc.Func))
	start := target.Size()
	for round := 0; round < 40 && time.Now().Before(deadline); round++ {
		cands := gen.Reductions(target)
		if len(cands) == 0 {
			break
		}
		sort.SliceStable(cands, func(i, j int) bool { return cands[i].Size() < cands[j].Size() })
		if len(cands) > 32 {
			cands = cands[:32]
		}
		win := env.tryCandidates(cur, target, cands, doc)
		if win == nil {
			break
		}
		replaceFunc(cur, target, win)
		target = win
	}
	if target.Size() < start {
		doc.Files = filesOf(cur)
		doc.IR = target
		doc.Msg += fmt.Sprintf(" [program minimised from %d to %d statements]", start, target.Size())
	}
}

func replaceFunc(p *gen.Prog, old, neu *gen.Func) {
	for _, f := range p.Files {
		for i, fn := range f.Funcs {
			if fn == old {
				f.Funcs[i] = neu
			}
		}
	}
}

func withFunc(p *gen.Prog, old, neu *gen.Func, pkg string) *gen.Prog {
	q := &gen.Prog{Pkg: pkg, Import: p.Import, SeqImported: p.SeqImported, LoadTest: p.LoadTest}
	for _, f := range p.Files {
		nf := &gen.File{Name: f.Name, Decls: f.Decls, RefDecls: f.RefDecls, UsesAPI: f.UsesAPI, Extern: f.Extern, Imports: f.Imports}
		for _, fn := range f.Funcs {
			if fn == old {
				nf.Funcs = append(nf.Funcs, neu)
			} else {
				nf.Funcs = append(nf.Funcs, fn)
			}
		}
		q.Files = append(q.Files, nf)
	}
	return q
}

// tryCandidates returns the first (smallest) candidate that reproduces the violation.
func (env *Env) tryCandidates(cur *gen.Prog, target *gen.Func, cands []*gen.Func, doc *CReplay) *gen.Func {
	b := env.NewBatch(&gen.Prog{Pkg: "x"})
	defer b.Remove()
	b.WriteSources()
	os.Remove(filepath.Join(b.Dir, "main.go"))
	names := make([]string, len(cands))
	progs := make([]*gen.Prog, len(cands))
	for k, c := range cands {
		names[k] = fmt.Sprintf("c%d", k)
		progs[k] = withFunc(cur, target, c, names[k])
		for p, t := range filesOfPrefixed(progs[k], names[k]+".") {
			writeFile(filepath.Join(b.Dir, p), t)
		}
	}
	alive := map[string]bool{}
	for _, n := range names {
		alive[n] = true
	}
	// source gate per candidate: invalid reductions are simply dropped
	for round := 0; round < 3; round++ {
		var pats []string
		for _, n := range names {
			if alive[n] {
				pats = append(pats, "./src/"+n, "./ref/"+n)
			}
		}
		if len(pats) == 0 {
			return nil
		}
		out, err := b.run(5*time.Minute, b.Dir, "go", append([]string{"build", "-gcflags=-e"}, pats...)...)
		if err == nil {
			break
		}
		dropped := false
		for _, m := range errLine.FindAllStringSubmatch(out, -1) {
			parts := strings.Split(m[1], "/")
			if len(parts) > 1 && alive[parts[1]] {
				alive[parts[1]] = false
				dropped = true
			}
		}
		if !dropped {
			return nil
		}
	}
	var live []string
	for _, n := range names {
		if alive[n] {
			live = append(live, n)
		}
	}
	if len(live) == 0 {
		return nil
	}
	out, err := b.run(10*time.Minute, b.Dir, env.Codrv, append([]string{"multi", "src", "opt"}, live...)...)
	if err != nil {
		return nil
	}
	verd := map[string][2]string{}
	for _, m := range pkgLine.FindAllStringSubmatch(out, -1) {
		verd[m[1]] = [2]string{m[2], m[3]}
	}
	idx := func(n string) int {
		for k := range names {
			if names[k] == n {
				return k
			}
		}
		return -1
	}
	wantPanic := doc.Kind == "gate" && doc.Stage == "compile-panic"
	if wantPanic {
		for _, n := range live {
			if v := verd[n]; v[0] == "PANIC" && diagClass(v[1]) == diagClass(firstLines(doc.Msg, 1)) {
				return cands[idx(n)]
			}
		}
		return nil
	}
	var ok []string
	for _, n := range live {
		if verd[n][0] == "OK" {
			ok = append(ok, n)
		}
	}
	needUnopt := doc.Oracle == "optunopt"
	for round := 0; round < 3 && len(ok) > 0; round++ {
		var imp, ap strings.Builder
		for _, n := range ok {
			fmt.Fprintf(&imp, "\topt%[1]s \"scratch/opt/%[1]s\"\n\tref%[1]s \"scratch/ref/%[1]s\"\n", n)
			fmt.Fprintf(&ap, "\tref = append(ref, ref%[1]s.Entries...)\n\topt = append(opt, opt%[1]s.Entries...)\n", n)
			data, _ := os.ReadFile(filepath.Join(b.Dir, "src", n, "reg.go"))
			writeFile(filepath.Join(b.Dir, "opt", n, "reg.go"), string(data))
			if needUnopt {
				// the unoptimised stage of each candidate
				if round == 0 {
					if msg := b.compileOnce("src/"+n, "st/"+n, true); msg != "" {
						continue
					}
					os.MkdirAll(filepath.Join(b.Dir, "unopt"), 0o755)
					os.Rename(filepath.Join(b.Dir, "st", n+"_tmp"), filepath.Join(b.Dir, "unopt", n))
					b.dropUnusedAPIImport(filepath.Join(b.Dir, "unopt", n))
					writeFile(filepath.Join(b.Dir, "unopt", n, "reg.go"), string(data))
				}
				fmt.Fprintf(&imp, "\tunopt%[1]s \"scratch/unopt/%[1]s\"\n", n)
				fmt.Fprintf(&ap, "\tunopt = append(unopt, unopt%[1]s.Entries...)\n", n)
			}
		}
		third := "opt"
		if needUnopt {
			third = "unopt"
		}
		writeFile(filepath.Join(b.Dir, "main.go"), "package main\n\nimport (\n"+imp.String()+"\t\"verif/sim/driver\"\n\t\"verif/sim/vrt\"\n)\n\nfunc main() {\n\tvar ref, opt, unopt []vrt.Entry\n"+ap.String()+"\t_ = unopt\n\tdriver.Main(ref, opt, "+third+")\n}\n")
		out, err := b.run(10*time.Minute, b.Dir, "go", "build", "-gcflags=-e", "-o", "run", ".")
		if err == nil {
			break
		}
		bad := map[string]string{}
		for _, m := range errLine.FindAllStringSubmatch(out, -1) {
			parts := strings.Split(m[1], "/")
			if len(parts) > 1 {
				if _, seen := bad[parts[1]]; !seen {
					bad[parts[1]] = parts[0] + ": " + m[4]
				}
			}
		}
		if doc.Kind == "gate" {
			for _, n := range ok {
				if msg, isBad := bad[n]; isBad && strings.HasSuffix(doc.Class, strings.SplitN(msg, ": ", 2)[1]) {
					return cands[idx(n)]
				}
			}
			return nil
		}
		if len(bad) == 0 {
			return nil
		}
		var keep []string
		for _, n := range ok {
			if _, isBad := bad[n]; !isBad {
				keep = append(keep, n)
			}
		}
		ok = keep
		if round == 2 {
			return nil
		}
	}
	if doc.Kind == "gate" || len(ok) == 0 || doc.Scenario == nil {
		return nil
	}
	if _, err := os.Stat(filepath.Join(b.Dir, "run")); err != nil {
		return nil
	}
	var variants []string
	for _, n := range ok {
		variants = append(variants, n+".")
	}
	b.Prog = &gen.Prog{}
	res := b.runQuiet(driver.Spec{Prop: doc.Property, Oracle: doc.Oracle, Only: doc.Func, Replay: doc.Scenario, Variants: variants})
	if res == nil {
		return nil
	}
	hit := map[string]bool{}
	for _, m := range res.Mismatches {
		if m.Class == doc.Class {
			hit[strings.SplitN(m.Func, ".", 2)[0]] = true
		}
	}
	for _, n := range ok {
		if hit[n] {
			return cands[idx(n)]
		}
	}
	return nil
}

func filesOfPrefixed(p *gen.Prog, prefix string) map[string]string {
	out := filesOf(p)
	reg := p.RenderRegPrefixed(prefix)
	out["src/"+p.Pkg+"/reg.go"] = reg
	out["ref/"+p.Pkg+"/reg.go"] = reg
	return out
}

// runQuiet is Run without turning a failing run binary into an infrastructure failure (a
// reduction may loop or crash; it is then simply not accepted).
func (b *Batch) runQuiet(sp driver.Spec) (res *driver.Result) {
	defer func() {
		if recover() != nil {
			res = nil
		}
	}()
	res, _ = b.runWith(sp, 90*time.Second, false)
	return res
}

var _ = ev.Root
