package layerc

import (
	"fmt"
	"time"

	"verif/sim/core"
	"verif/sim/driver"
	"verif/sim/ev"
	"verif/sim/gen"
	"verif/sim/prng"
)

// CReplay is the replay document of a compiled-program violation: the rendered sources are
// stored, replay re-renders nothing.
type CReplay struct {
	Property string
	Layer    string
	Kind     string // gate | history
	Oracle   string
	Seed     uint64
	Batch    int
	Func     string
	Files    map[string]string // path relative to the scratch module -> content (src/, ref/, reg)
	Pkg      string
	Scenario *driver.Scenario `json:",omitempty"`
	Spec     *driver.Spec     `json:",omitempty"` // Kind "dead": the run that the function brought down
	Class    string
	Stage    string   `json:",omitempty"`
	Msg      string   `json:",omitempty"`
	Expected []string `json:",omitempty"`
	Observed []string `json:",omitempty"`
	DiffAt   int
	IR       *gen.Func `json:",omitempty"`
}

type checkCfg struct {
	prop      string
	profile   string
	oracle    string
	needUnopt bool
	argVecs   int
	nFuncs    int
	maxFault  int
}

const maxViolationsPerWorker = 3

func filesOf(p *gen.Prog) map[string]string {
	out := map[string]string{}
	for _, f := range p.Files {
		if len(f.Funcs) == 0 && len(f.Decls) == 0 {
			continue
		}
		out["src/"+p.Pkg+"/"+f.Name] = p.RenderFile(f, gen.Mode{})
		out["ref/"+p.Pkg+"/"+f.Name] = p.RenderFile(f, gen.Mode{Ref: true})
	}
	if p.LoadTest {
		out["src/"+p.Pkg+"/"+loadTestFile] = loadTestSource(p.Pkg)
	}
	reg := p.RenderReg()
	out["src/"+p.Pkg+"/reg.go"] = reg
	out["ref/"+p.Pkg+"/reg.go"] = reg
	return out
}

// runProfile is the common loop of the compiled-program checks.
func runProfile(j *core.Job, cc checkCfg) {
	env := NewEnv()
	defer env.Close()
	rep := j.Rep
	for _, k := range []string{"programs_generated", "programs_compiled_and_linked", "gate_compile_panic", "gate_build_failure", "functions_with_mismatch"} {
		rep.Count(k, 0)
	}
	for _, bn := range j.Batches {
		if bn == 0 && cc.profile != "matrix" {
			RunKnown(j, cc.prop)
		}
		cfg := gen.Swarm(prng.Derive(j.Seed, cc.prop, bn, "cfg"), cc.profile)
		if cc.nFuncs > 0 {
			cfg.NFuncs = cc.nFuncs
		}
		if bn%2 == 1 {
			cfg.OptFile = "a_gen_opt.go" // the template file is then the first file the stages visit
		}
		var prog *gen.Prog
		if cc.profile == "depth" {
			prog = gen.DepthProg(prng.Derive(j.Seed, cc.prop, bn, "prog"), j.Thorough())
		} else if cc.profile == "matrix" {
			prog = gen.MatrixProg(prng.Derive(j.Seed, cc.prop, "matrix", bn, "prog"), 120, cc.profile)
		} else {
			prog = gen.GenProg(prng.Derive(j.Seed, cc.prop, bn, "prog"), cfg, "p")
		}
		b := env.NewBatch(prog)
		rep.Count("programs_generated", prog.NumFuncs())
		b.WriteSources()
		b.SourceGate()
		ok := b.Compile(cc.needUnopt)
		for _, g := range b.Gate {
			if g.Stage == "compile-panic" {
				rep.Count("gate_compile_panic", 1)
			} else {
				rep.Count("gate_build_failure", 1)
			}
			if len(rep.Violations) < maxViolationsPerWorker {
				files := g.Files
				if files == nil {
					files = map[string]string{}
				}
				files["function"] = g.Source
				doc := &CReplay{Property: cc.prop, Layer: "C", Kind: "gate", Seed: j.Seed, Batch: bn, Func: g.Func, Stage: g.Stage, Msg: g.Msg,
					Class: "acceptance-gate " + g.Stage + ": " + firstLines(g.Msg, 1), Pkg: "p", Files: files}
				if g.Prog != nil && len(rep.Violations) == 0 {
					env.Shrink(g.Prog, doc, 4*time.Minute) // the first violation of a worker is minimised
				}
				path := ev.WriteReplay(cc.prop, int64(j.Seed), bn*1000+len(rep.Violations), doc)
				rep.Violations = append(rep.Violations, ev.Violation{Prop: cc.prop, Class: doc.Class, Replay: path})
			}
		}
		if !ok {
			b.Remove()
			continue
		}
		rep.Count("programs_compiled_and_linked", b.Prog.NumFuncs())
		for _, f := range b.Prog.AllFuncs() {
			for _, ft := range f.Feat {
				rep.Count("feature_"+ft, 1)
			}
		}
		spec := driver.Spec{Prop: cc.prop, Oracle: cc.oracle, Seed: j.Seed, Batch: bn, ArgVecs: cc.argVecs, MaxFault: cc.maxFault, Samples: 2}
		res := b.Run(spec)
		for name, ds := range res.Sets {
			for _, d := range ds {
				rep.SetAdd(name, d)
			}
		}
		rep.Evals += res.Scenarios
		for k, v := range res.Counters {
			rep.Count(k, v)
		}
		for _, d := range res.Nontrivial {
			rep.Nontrivial(d)
		}
		for _, s := range res.Samples {
			rep.Sample(s, 3)
		}
		for _, m := range res.Mismatches {
			rep.Count("functions_with_mismatch", 1)
			if len(rep.Violations) >= maxViolationsPerWorker {
				continue
			}
			f := b.Prog.Find(m.Func)
			sub := b.Prog.Subset(b.Prog.Closure(m.Func))
			if m.Sc == nil {
				// the function brought the run binary down: the replay plays this function's share
				// of the batch again (same seed, same derived streams) and expects the same end
				rep.Count("functions_that_brought_the_run_binary_down", 1)
				sp := spec
				sp.Only = m.Func
				doc := &CReplay{Property: cc.prop, Layer: "C", Kind: "dead", Oracle: m.Oracle, Seed: j.Seed, Batch: bn, Func: m.Func,
					Files: filesOf(sub), Pkg: "p", Spec: &sp, Class: m.Class, Observed: m.Observed, DiffAt: -1, IR: f}
				path := ev.WriteReplay(cc.prop, int64(j.Seed), bn*1000+len(rep.Violations), doc)
				rep.Violations = append(rep.Violations, ev.Violation{Prop: cc.prop, Class: fmt.Sprintf("%s in %s", m.Class, m.Func), Replay: path})
				continue
			}
			doc := &CReplay{Property: cc.prop, Layer: "C", Kind: "history", Oracle: m.Oracle, Seed: j.Seed, Batch: bn, Func: m.Func,
				Files: filesOf(sub), Pkg: "p", Scenario: m.Sc, Class: m.Class, Expected: m.Expected, Observed: m.Observed, DiffAt: m.DiffAt, IR: f}
			if len(rep.Violations) == 0 {
				env.Shrink(b.Prog, doc, 4*time.Minute) // the first violation of a worker is minimised
			}
			if doc.IR != f {
				// refresh the stored histories on the minimised program
				if c2, _ := Reevaluate(doc); c2 != doc.Class {
					doc.Files, doc.IR = filesOf(sub), f // minimised program does not replay identically: keep the original
				}
			}
			path := ev.WriteReplay(cc.prop, int64(j.Seed), bn*1000+len(rep.Violations), doc)
			rep.Violations = append(rep.Violations, ev.Violation{Prop: cc.prop, Class: fmt.Sprintf("%s in %s", m.Class, m.Func), Replay: path})
		}
		b.Remove()
	}
}

// the matrix parts: systematic outer x inner x statement combinations (sim/gen/matrix.go)
func C01M(j *core.Job) {
	runProfile(j, checkCfg{prop: "C01", profile: "matrix", oracle: "values", argVecs: 5})
}

func C02M(j *core.Job) {
	runProfile(j, checkCfg{prop: "C02", profile: "matrix", oracle: "refeq", argVecs: 5})
}

func C03M(j *core.Job) {
	runProfile(j, checkCfg{prop: "C03", profile: "matrix", oracle: "refeq", argVecs: 5})
}

func C04M(j *core.Job) {
	runProfile(j, checkCfg{prop: "C04", profile: "matrix", oracle: "refeq", argVecs: 5})
}

func C06M(j *core.Job) {
	runProfile(j, checkCfg{prop: "C06", profile: "matrix", oracle: "refeq", argVecs: 5})
}

func C05M(j *core.Job) {
	runProfile(j, checkCfg{prop: "C05", profile: "matrix", oracle: "refeq", argVecs: 5})
}

func C07M(j *core.Job) {
	runProfile(j, checkCfg{prop: "C07", profile: "matrix", oracle: "optunopt", needUnopt: true, argVecs: 5, maxFault: 4})
}

func C18M(j *core.Job) {
	runProfile(j, checkCfg{prop: "C18", profile: "matrix", oracle: "panic", argVecs: 3, maxFault: 40})
}

func C02(j *core.Job) {
	runProfile(j, checkCfg{prop: "C02", profile: "control", oracle: "refeq", argVecs: 12})
}

func C01(j *core.Job) {
	runProfile(j, checkCfg{prop: "C01", profile: "control", oracle: "values", argVecs: 36})
}

func C03(j *core.Job) {
	runProfile(j, checkCfg{prop: "C03", profile: "scope", oracle: "refeq", argVecs: 12})
}

func C04(j *core.Job) {
	runProfile(j, checkCfg{prop: "C04", profile: "range", oracle: "refeq", argVecs: 12})
}

func C05(j *core.Job) {
	runProfile(j, checkCfg{prop: "C05", profile: "delegation", oracle: "refeq", argVecs: 12})
}

func C06(j *core.Job) {
	runProfile(j, checkCfg{prop: "C06", profile: "consumer", oracle: "refeq", argVecs: 12})
}

func C07(j *core.Job) {
	runProfile(j, checkCfg{prop: "C07", profile: "all", oracle: "optunopt", needUnopt: true, argVecs: 10, maxFault: 4})
}

func C13(j *core.Job) {
	runProfile(j, checkCfg{prop: "C13", profile: "bystander", oracle: "refeq", argVecs: 16})
}

func C14(j *core.Job) {
	runProfile(j, checkCfg{prop: "C14", profile: "all", oracle: "solo", argVecs: 6})
}

func C18(j *core.Job) {
	runProfile(j, checkCfg{prop: "C18", profile: "all", oracle: "panic", argVecs: 4, maxFault: 60})
}

func C17(j *core.Job) {
	runProfile(j, checkCfg{prop: "C17", profile: "depth", oracle: "depth"})
}
